#!/bin/bash
# Build the libFuzzer targets against /repo's current working tree (hooks on). Serialised with flock.
set -eu
cd "$(dirname "$(readlink -f "$0")")"
export CARGO_NET_OFFLINE=true
exec 8>/verif/fuzz/.build.lock
flock -w 1200 8 || { echo "fuzz build lock busy" >&2; exit 1; }
cp /repo/Cargo.lock Cargo.lock 2>/dev/null || true
RUSTFLAGS="--cfg betaveros_noulith_verif" cargo +nightly fuzz build -O --fuzz-dir . 2>&1 | grep -E "^error|warning: unexpected|Finished" || true
test -x target/x86_64-unknown-linux-gnu/release/fz_parse
