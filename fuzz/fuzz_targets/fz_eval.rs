// C14/C15: lex + parse + evaluate with a step budget; a panic anywhere is a crash. Only programs that
// do not mention effectful builtins are evaluated.
#![no_main]
use libfuzzer_sys::fuzz_target;
use noulith::{evaluate, initialize, parse, Env, RefCell, Rc};

const DENY: &[&str] = &[
    "print", "echo", "write", "debug", "input", "read", "interact", "flush", "file", "list_files", "run_process", "sleep", "time", "now",
    "random", "shuffle", "choose", "import", "request", "memoize", "iota", "repeat", "cycle", "iterate", "**", ".*", "*.", "$*", "*$", "^", "<<",
    "window", "join", "replace", "combinations", "permutations", "subsequences", "is_prime", "factorize", "while", "til", "to", "__internal", "\u{1F409}",
];

fn depth_ok(s: &str) -> bool {
    let mut d: i32 = 0;
    for c in s.chars() {
        match c {
            '(' | '[' | '{' | '\\' => {
                d += 1;
                if d > 60 {
                    return false;
                }
            }
            ')' | ']' | '}' => d -= 1,
            _ => {}
        }
    }
    true
}

fuzz_target!(|data: &[u8]| {
    if data.len() > 300 {
        return;
    }
    if let Ok(s) = std::str::from_utf8(data) {
        if !depth_ok(s) || DENY.iter().any(|d| s.contains(d)) {
            return;
        }
        // big literals are a resource class
        if s.bytes().filter(|b| b.is_ascii_digit()).count() > 24 {
            return;
        }
        if let Ok(Some(expr)) = parse(s) {
            let mut env = Env::empty();
            initialize(&mut env);
            let e = Rc::new(RefCell::new(env));
            noulith::verif::set_fuel(20_000);
            let _ = evaluate(&e, &expr);
            noulith::verif::set_fuel(u64::MAX);
        }
    }
});
