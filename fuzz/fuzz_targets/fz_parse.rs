// C15: parse() is total. Any panic is a libFuzzer crash. Inputs with bracket nesting deeper than 200 are
// excluded by construction (known finding F29: the recursive-descent parser has no depth limit).
#![no_main]
use libfuzzer_sys::fuzz_target;

fn depth_ok(s: &str) -> bool {
    let mut d: i32 = 0;
    let mut max = 0;
    for c in s.chars() {
        match c {
            '(' | '[' | '{' | '\\' => {
                d += 1;
                if d > max {
                    max = d;
                }
            }
            ')' | ']' | '}' => d -= 1,
            _ => {}
        }
    }
    max <= 200
}

fuzz_target!(|data: &[u8]| {
    if let Ok(s) = std::str::from_utf8(data) {
        if depth_ok(s) {
            let _ = noulith::parse(s);
        }
    }
});
