#!/usr/bin/env python3
"""ad-hoc probe: ./nl.py 'expr' ... (each evaluated in a fresh session)"""
import sys, json
sys.path.insert(0, '/verif')
from pbt.runner import NL
nl = NL()
for r, s in zip(nl.evals(sys.argv[1:], fuel=10**6), sys.argv[1:]):
    o = {k: v for k, v in r.items() if k not in ('fuel_used',) and v not in ('', None) or k == 'value'}
    print(s, '=>', json.dumps(o, ensure_ascii=False))
nl.close()
