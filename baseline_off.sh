#!/bin/bash
# Runs the repository's pinned baseline suite with the verification guard OFF (no --cfg) and checks
# that exactly the 48 stable tests pass (demos and splat_call are in the baseline's always_fail list).
set -u
cd /repo
export CARGO_NET_OFFLINE=true
unset RUSTFLAGS
out=$(cargo nextest run --workspace --no-fail-fast --tool-config-file pb:/w/lib/nextest.toml --profile pb --test-threads 8 --offline 2>&1)
if ! echo "$out" | grep -q "Summary"; then
  # nextest or its tool config not available: fall back to cargo test, one process per test
  pass=0; fail=""
  for t in $(cargo test --workspace --offline -- --list 2>/dev/null | grep ': test$' | sed 's/: test$//'); do
    if cargo test --workspace --offline -- --exact "$t" >/dev/null 2>&1; then pass=$((pass+1)); else fail="$fail $t"; fi
  done
  echo "passed=$pass failed:$fail"
  [ "$pass" -ge 48 ] && exit 0 || exit 1
fi
echo "$out" | tail -5
# every test of the pinned stable_pass list must pass; demos/splat_call are the baseline's always_fail list
npass=$(echo "$out" | grep -oE "[0-9]+ passed" | head -1 | grep -oE "[0-9]+")
[ "${npass:-0}" -ge 48 ] || exit 1
bad=$(echo "$out" | grep -E "^\s+(FAIL|SIGABRT|SIGSEGV|TIMEOUT)" | grep -vE "noulith::test (demos|splat_call)$" | wc -l)
[ "$bad" -eq 0 ]
