#!/usr/bin/env python3
"""Regenerates MANIFEST.json from the table below (run after adding/removing a check)."""
import json
import os
import subprocess

HERE = os.path.dirname(os.path.abspath(__file__))

# pid -> (category, technique, text, note, design_ref)
CHECKS = {}


def add(pid, category, technique, text, note, ref):
    CHECKS[pid] = (category, technique, text, note, ref)


add("C01", "exploration",
    "stateful model-based property testing (Hypothesis-driven histories vs a copy-on-assignment Python model, snapshot after every statement) plus an exhaustive builtin-call sweep",
    "Statement histories over all listed mutation forms with deliberately injected aliases (variables, container slots, closures, "
    "struct fields, function arguments); every variable is compared with the model after every statement; statements that raise "
    "inside try/catch may only change their addressed slots; every pure builtin applied to a bound variable must leave it unchanged.",
    "Trusted: the Python model (deepcopy at every binding), nlrun snapshot/serialiser, Hypothesis. Integers small, strings ASCII.",
    "DESIGN.md §3 C01")
add("C05", "exploration",
    "model-based property testing: scope-aware Hypothesis program generator vs an independent reference interpreter of the documented rules",
    "Generated programs over the whole listed vocabulary (sequencing, if, while, multi-clause for with <- / <<- / := / guards, yield, "
    "yield k: v, into, counted and valued break/continue, return through loops, try/catch/throw, and/or/coalesce, lambdas with defaults "
    "and splats, closures escaping and per iteration, shadowing, switch arms, eval, deliberate undeclared/redeclared names and wrong "
    "argument counts) must give the same value, printed output and raised/not-raised outcome as the reference interpreter.",
    "Trusted: the reference interpreter (lang.py, ~450 lines, rules in DESIGN.md Appendix A), the printer, Hypothesis. Error texts never compared.",
    "DESIGN.md §3 C05")
add("C06", "exploration",
    "property-based testing (Hypothesis) against a Python-int reference model; operands produced in several representations",
    "Generated (operator, operands, production form) cases are evaluated by the real interpreter and compared with CPython "
    "int semantics written out per operator from the statement; is_big() of each operand is read back to show that both "
    "representations were exercised. Holds on everything explored, no claim of absence.",
    "Trusted: CPython int, the nlrun canonical serialiser, Hypothesis. % by zero is excluded (C14). Shift counts 0..4096.",
    "DESIGN.md §3 C06")

add("C07", "exploration",
    "property-based testing (Hypothesis) against fractions.Fraction / IEEE reference; metamorphic level relation for mixed float/complex operands",
    "Exact levels are compared with Fraction arithmetic including result level; a pair whose higher level is float/complex must "
    "equal the same operation on operands converted by the interpreter itself; rounding/conversion family against exact "
    "arithmetic; vectors element-wise with broadcasting, unequal lengths must raise.",
    "Trusted: CPython Fraction/float, nlrun serialiser, Hypothesis; for mixed levels the float/complex arithmetic of the interpreter itself.",
    "DESIGN.md §3 C07")
add("C08", "exploration",
    "exhaustive pool x pool comparison grid plus property-based testing (Hypothesis) against exact rational comparison",
    "Every comparison operator, <=>, >=<, min, max on an exhaustive grid of ~70 boundary values of all real levels, on generated "
    "near-equal pairs, sort as ordered stable permutation, lexicographic sequences and must-raise for incomparable kinds.",
    "Trusted: Fraction(float) exactness, nlrun serialiser, Hypothesis.",
    "DESIGN.md §3 C08")

add("C15", "exploration",
    "coverage-guided fuzzing (libFuzzer, cargo-fuzz target fz_parse, seeded and empty corpus) plus property-based testing (Hypothesis) of generated texts and literal spellings; nesting-depth probe in a child process",
    "parse() must return a tree or a parse error for every UTF-8 text: libFuzzer runs bounded by -runs with a token dictionary, Hypothesis "
    "token soups / mutated repository programs / escape forms with boundary payloads / runaway strings and comments / huge numbers; every "
    "literal syntax (integers of any size in decimal, 0x, 0b, 0o, NrDIGITS for N=2..36, 64r; q, floats, imaginary; strings, bytes and raw "
    "strings with every escape form and bracket style) must evaluate to the value its digits and escapes spell.",
    "Trusted: libFuzzer, catch_unwind in nlrun, CPython int/float parsing. Nesting deeper than 200 excluded (known finding F29).",
    "DESIGN.md §3 C15")
add("C16", "exploration",
    "property-based testing (Hypothesis): stated round-trips plus independent Python encoders/decoders (int, Fraction, binascii, base64, gzip, json)",
    "Every codec pair is checked as a round-trip and against an independent Python implementation in both directions; integer "
    "rendering through str/$/print/format flags is compared for the same value in small and big representation.",
    "Trusted: CPython codecs and json, nlrun serialiser, Hypothesis. str_radix(0,b) accepts \"\" or \"0\".",
    "DESIGN.md §3 C16")

add("C09", "exploration",
    "stateful model-based property testing (Hypothesis histories vs a hash-free association-list model over == classes)",
    "Histories of every listed dictionary operation over a pool of ~60 keys rich in distinct-but-equal representatives (int/float/"
    "rational/complex, big/small, nested in lists/vectors/dicts, NaN also inside vectors, -0.0, dicts differing only in their default); after each operation len, membership and lookup of every "
    "pool key and the contents are compared; unique/frequencies/count_distinct/group_all/memoize (also variadic argument tuples)/set on key lists.",
    "Trusted: the model's exact equality (Fraction-based), nlrun serialiser, Hypothesis. Key representative and iteration order not compared.",
    "DESIGN.md §3 C09")

add("C10", "exploration",
    "exhaustive bounded grid enumeration against Python list/bytes indexing, plus Hypothesis-generated extreme index/slice bounds",
    "All fourteen sequence kinds (incl. six partly consumed streams) x lengths 0..6 (0..9 thorough) x every index in [-len-3, len+3] and around +-2^31/2^63/2^64/10^30 "
    "(also small values in big-integer representation and non-integers) x all slice-bound pairs x every accessor in two call forms "
    "x every write form; a process abort on a tiny sequence is isolated and reported as a violation.",
    "Trusted: Python slicing semantics, nlrun serialiser. uncons/unsnoc/only are character-based on strings and use ASCII only; slice bounds beyond 64 bits may raise.",
    "DESIGN.md §3 C10")

add("C11", "exploration",
    "property-based testing (Hypothesis-generated stream specs) against Python generator reference (range/itertools), ~35 observations per stream on one variable",
    "Finite streams of every listed constructor, at every dropped-prefix position, must agree with list(s) for len/index/slice/"
    "reverse/last/in/truthiness/unpacking/for/consumers, and list(s) is re-read at the end to show the variable did not advance; "
    "membership by value across numeric levels; infinite streams through prefixes, indices, bounded slices and len == inf; iterate with a breaking / failing step function up to its last defined element.",
    "Trusted: Python range/itertools orders as documented in streams.rs/BUILTINS.md, nlrun serialiser, Hypothesis. Length <= 5000.",
    "DESIGN.md §3 C11")

add("C12", "exploration",
    "property-based testing (Hypothesis): generated pattern x value x binding-context cases against a reference matcher; multi-arm switch; stateful histories on annotated variables; type classification table",
    "Patterns to depth 3 (names, _, literals, sequences with one splat and trailing defaults, or, and, annotations incl. struct and "
    "satisfying, struct and operator patterns .+ +. + - / chained comparison) with values built to match or to miss by one feature, in "
    "switch / := / = / lambda / for / catch; the first matching arm runs; `x is T` holds after every completed statement on an annotated "
    "variable (assign, every, swap, destructuring, operator- and index-assignment) and a value of type T is never refused; v is type(v), "
    "v is anything, T(v) is T over the value pool.",
    "Trusted: the reference matcher / type predicate written from the statement, nlrun serialiser, Hypothesis.",
    "DESIGN.md §3 C12")
add("C13", "exploration",
    "property-based testing (Hypothesis) against an executable specification: one Python definition per sequence function",
    "~70 function forms x input kinds (list/vector/bytes/string/stream) x lengths 0..64 with repeats x callback families (incl. "
    "non-commutative folds, tie-producing comparators, a throwing callback); sort/sort_on checked for stability through "
    "position-tagged pairs, unique for first occurrences, kind preservation of filter-like functions, documented enumeration orders.",
    "Trusted: the Python definitions written from BUILTINS.md, nlrun serialiser, Hypothesis. partition's result kind not asserted.",
    "DESIGN.md §3 C13")

add("C14", "fault_enumeration",
    "exhaustive fault enumeration: every pure builtin x argument tuples (k<=3) from a 54-value pool of all kinds and faults, and every statement template x operand tuples, each inside try/catch with panic capture; plus Hypothesis-generated faulty statements",
    "Allowed outcomes are a value or an error delivered to catch; a panic (catch_unwind + hook), a process abort (isolated by re-running), "
    "fuel exhaustion or a 20 s stall on small finite arguments is a violation; afterwards the session and unrelated variables are probed.",
    "Trusted: nlrun panic capture. Resource classes (huge counts to size-like builtins, infinite streams) excluded by construction and counted.",
    "DESIGN.md §3 C14")

add("C02", "exploration",
    "metamorphic allocation scaling: bytes requested from a counting global allocator during a mutation loop at n and 4n (enumerated forms + Hypothesis-generated interleavings)",
    "~55 mutation forms over lists, rows, dicts (with/without default), vectors, bytes, strings, struct fields, nested paths, closure-captured variables, user-closure operators, and-lvalues and stacks at a capacity boundary, plain / type-annotated / "
    "with one extra holder, and generated interleavings of 2-3 forms: A(4n) <= 7 A(n) (linear ~4, copy-per-operation ~16), alias variant at most "
    "one copy per holder; each workload's result is probed so a failed loop cannot pass as fast.",
    "Trusted: the counting #[global_allocator] in nlrun (deterministic byte counts). Two sizes only; $=/x{..}/every..f= reported, not asserted.",
    "DESIGN.md §3 C02")
add("C03", "exploration",
    "property-based testing (Hypothesis) plus exhaustive small-chain enumeration against two independent reference groupers; metamorphic full parenthesisation; evaluation-order log",
    "Chains of 1-7 operators over tree-building closures, right/left-associative builtin copies with runtime-assigned precedences (all weak "
    "orders incl. +-inf for <= 3-4 operators), comparison / zip / ** / &&& / *** aliases with n-ary merging (mixed families must not merge), precedences also reached through op-assignment, til/to+by, fold/scan+from, replace+with, "
    "zip+with templates over a precedence grid incl. a trailing third operator; direct, parenthesised and underscore-section routes; "
    "operands and operator expressions logged exactly once left to right.",
    "Trusted: the two Python groupers (cross-checked against each other), nlrun serialiser, Hypothesis. No NaN precedences.",
    "DESIGN.md §3 C03")
add("C04", "exploration",
    "exhaustive differential grid: every callable x argument tuples from a 54-value pool, all application forms of the statement evaluated and compared (equal canonical outcome or common failure)",
    "~310 builtins/types plus 21 user callables (closures, defaults, splats, compositions, left/right sections, flips) x pool^k (k=1..3): "
    "infix, call, bang, backtick, four section forms, section+splat combinations, apply, of, splat, op-assign (also with a self-referring right side), left section, and the "
    "one-argument right-section rule for builtins.",
    "Trusted: the forms on the other side of the differential, nlrun serialiser (functions compared as opaque). group_all compared as multiset.",
    "DESIGN.md §3 C04")

add("C17", "translation_validation",
    "property-based translation validation (Hypothesis-generated closed lambdas + enumerated scope-shape templates): frozen vs unfrozen vs frozen-after-reassignment, plus a static must-fail predicate",
    "(freeze L)(args) must equal L(args) in value, output and outcome; after a script reassigning outer variables, swapping operator "
    "aliases and changing precedences the frozen function must still behave as L did at freeze time; freeze must raise exactly for "
    "lambdas with an unbound name / outer assignment / pop / swap / import / bare underscore injected into live or dead code.",
    "Trusted: the interpreter's ordinary evaluation of the unfrozen lambda (other side of the differential), the generator's scope tracking. "
    "Known findings F23/F24/F30 (textual-order scope analysis of freeze) are classified by static predicates on L.",
    "DESIGN.md §3 C17")

NOT_APPLICABLE = {
}

ALL = ["C%02d" % i for i in range(1, 18)]


def main():
    hook_commits = subprocess.run(["git", "-C", "/repo", "log", "--format=%h %s"], capture_output=True, text=True).stdout
    hooks = [l.split()[0] for l in hook_commits.splitlines() if l.split(" ", 1)[1].startswith("verif hook")]
    checks = []
    for pid in ALL:
        if pid not in CHECKS:
            continue
        cat, tech, text, note, ref = CHECKS[pid]
        checks.append({
            "property_id": pid,
            "quick_cmd": "./check %s --tier quick" % pid,
            "thorough_cmd": "./check %s --tier thorough" % pid,
            "evidence_file": "/verif/evidence/%s.json" % pid,
            "replay_cmd_template": "./check %s --replay {path}" % pid,
            "engine": "nlrun+hypothesis",
            "level_claimed": {"category": cat, "text": text, "design_ref": ref},
            "level_note": note,
            "technique": tech,
        })
    na = []
    for pid in ALL:
        if pid not in CHECKS:
            na.append({"property_id": pid,
                       "reason": NOT_APPLICABLE.get(pid, "check not built yet in this round (planned, see DESIGN.md §3); not claimed")})
    m = {
        "version": 1,
        "setup_cmd": "./setup.sh",
        "hooks": {
            "guard": "--cfg betaveros_noulith_verif",
            "enable": "harness/.cargo/config.toml sets build.rustflags = [\"--cfg\", \"betaveros_noulith_verif\"]; ./build.sh builds "
                      "the nlharness crate (path dependency on /repo) with it",
            "baseline_off_cmd": "/verif/baseline_off.sh",
            "source_commits": hooks,
            "add_only": True,
        },
        "engines": [
            {"name": "nlrun", "path": "harness/", "serves_properties": sorted(CHECKS),
             "kind_free_text": "Rust JSON-lines evaluation server linking the real interpreter (canonical serialiser, "
                               "panic capture, fuel hook, counting allocator)"},
            {"name": "hypothesis-suites", "path": "pbt/", "serves_properties": sorted(CHECKS),
             "kind_free_text": "Python Hypothesis suites with reference models, 16 worker processes"},
            {"name": "libfuzzer-targets", "path": "fuzz/", "serves_properties": ["C15", "C14"],
             "kind_free_text": "cargo-fuzz crate: fz_parse (parse totality, run by the C15 check), fz_eval (lex+parse+evaluate with fuel, background campaigns)"},
        ],
        "checks": checks,
        "not_applicable": na,
        "notes": "Exit codes: 0 held, 1 VIOLATION, 2 inconclusive (infrastructure). VERIF_SEED selects the random stream. "
                 "known_findings.json lists fixed and recorded findings.",
    }
    with open(os.path.join(HERE, "MANIFEST.json"), "w") as f:
        json.dump(m, f, indent=1)
    print("MANIFEST.json: %d checks, %d not claimed" % (len(checks), len(na)))


if __name__ == "__main__":
    main()
