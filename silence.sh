#!/bin/bash
# ./silence.sh [seeds...]: run every claimed quick check on the unchanged tree for several seeds; print non-OK lines.
cd "$(dirname "$(readlink -f "$0")")"
seeds="${@:-1 2 3 4 5}"
for pid in $(python3 -c "import json;print(' '.join(c['property_id'] for c in json.load(open('MANIFEST.json'))['checks']))"); do
  for s in $seeds; do
    out=$(VERIF_SEED=$s ./check $pid --tier quick 2>&1); rc=$?
    echo "$pid seed=$s rc=$rc $(echo "$out" | grep -E '^(OK|VIOLATION|INCONCLUSIVE)' | head -1 | cut -c1-200)"
    if [ $rc -ne 0 ]; then echo "$out" | grep -E "violation detail|HARNESS|INCONCLUSIVE" | cut -c1-1500 | head -5; fi
  done
done
