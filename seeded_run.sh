#!/bin/bash
# ./seeded_run.sh [parallel=5] [ids...]: run the quick tier of the targeted check against every seeded change without touching
# /repo: for each change a scratch worktree of /repo HEAD gets the patch, a copy of /verif gets a harness that points at that
# worktree, the check runs there, and both are removed again. Writes seeded/RESULTS.md (not a registered command; scratch under
# /tmp/verif_seeded only while it runs).
set -u
HERE="$(dirname "$(readlink -f "$0")")"
PAR="${1:-5}"; shift || true
IDS="${*:-$(ls "$HERE/seeded" | grep -E '^C[0-9]+-[a-z]$')}"
S=/tmp/verif_seeded; mkdir -p $S/out
one() {
  id="$1"; HERE="$2"; S=/tmp/verif_seeded
  meta="$HERE/seeded/$id/meta.json"
  chk=$(python3 -c "import json,sys;print(json.load(open(sys.argv[1]))['checked_with']['check'])" "$meta")
  d=$S/$id; rm -rf $d; mkdir -p $d
  git -C /repo worktree add --detach $d/repo HEAD >/dev/null 2>&1 || { echo "$id | $chk | WORKTREE-FAILED" > $S/out/$id; return; }
  if ! git -C $d/repo apply "$HERE/seeded/$id/patch.diff"; then echo "$id | $chk | PATCH-DOES-NOT-APPLY" > $S/out/$id; git -C /repo worktree remove --force $d/repo; rm -rf $d; return; fi
  rsync -a --exclude target --exclude work --exclude .git --exclude evidence --exclude replays --exclude seeded "$HERE/" $d/verif/
  mkdir -p $d/verif/evidence $d/verif/replays
  sed -i "s#path = \"/repo\"#path = \"$d/repo\"#" $d/verif/harness/Cargo.toml $d/verif/fuzz/Cargo.toml
  cp $d/repo/Cargo.lock $d/verif/harness/Cargo.lock
  (cd $d/verif/harness && CARGO_NET_OFFLINE=true cargo build --release --offline >$d/build.log 2>&1) || { echo "$id | $chk | BUILD-FAILED" > $S/out/$id; }
  if [ "$chk" = "C15" ]; then (cd $d/verif/fuzz && cp $d/repo/Cargo.lock Cargo.lock && RUSTFLAGS="--cfg betaveros_noulith_verif" CARGO_NET_OFFLINE=true cargo +nightly fuzz build -O --fuzz-dir . >>$d/build.log 2>&1); fi
  out=$(cd $d/verif && timeout 2400 python3-vt -m pbt "$chk" 2>&1 | grep -E "^(VIOLATION|OK|INCONCLUSIVE|violation detail)" | grep -v "^KNOWN" | head -2 | cut -c1-260 | tr '\n' ' ')
  case "$out" in *VIOLATION*) r=DETECTED;; *OK\ property*) r=MISSED;; *) r=INCONCLUSIVE;; esac
  echo "$id | $chk | $r | $out" > $S/out/$id
  git -C /repo worktree remove --force $d/repo; rm -rf $d
}
export -f one
echo $IDS | tr ' ' '\n' | xargs -P "$PAR" -I{} bash -c 'one {} '"$HERE"
{ echo "# seeded changes vs the quick tier (base $(git -C /repo rev-parse --short HEAD), verif $(git -C "$HERE" rev-parse --short HEAD), $(date -u +%F))"; echo; echo "| id | check | result | first lines |"; echo "| - | - | - | - |";
  for id in $IDS; do echo "| $(cat $S/out/$id 2>/dev/null | sed 's/|/\\|/g; s/^\([^\\]*\)\\| \([^\\]*\)\\| \([^\\]*\)\\| /\1| \2| \3| /') |"; done; } > "$HERE/seeded/RESULTS.md"
grep -c DETECTED "$HERE/seeded/RESULTS.md"; grep -E "MISSED|INCONCLUSIVE|FAILED|APPLY" "$HERE/seeded/RESULTS.md" | cut -c1-200
rm -rf $S
