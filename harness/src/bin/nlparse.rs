// nlparse: parse stdin on the MAIN thread with the default stack (no catch_unwind, no big stack).
// prints ok / empty / parse_error; a panic or a stack overflow ends the process abnormally.
use std::io::Read;

fn main() {
    let mut s = String::new();
    std::io::stdin().read_to_string(&mut s).unwrap();
    match noulith::parse(&s) {
        Ok(Some(_)) => println!("ok"),
        Ok(None) => println!("empty"),
        Err(_) => println!("parse_error"),
    }
}
