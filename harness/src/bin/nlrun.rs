// nlrun: JSON-lines evaluation server around the real interpreter.
//   request  {"op":"run", "sid":<int, optional>, "each_fresh":bool, "fuel":N, "steps":[{"src":..,"snap":[..],"alloc":bool}]}
//   response {"results":[{status,value|thrown|panic,output,fuel_used,snap?}...]}
// Other ops: open, close, parse, globals, ping.
use nlharness::alloc::Counting;
use nlharness::sess::{parse_only, Session, UNLIMITED};
use serde_json::{json, Value};
use std::collections::HashMap;
use std::io::{BufRead, Write};

#[global_allocator]
static GLOBAL: Counting = Counting;

fn set_limits() {
    let gib: u64 = 1 << 30;
    let lim = std::env::var("NLRUN_AS_GIB").ok().and_then(|s| s.parse::<u64>().ok()).unwrap_or(10);
    unsafe {
        let r = libc::rlimit { rlim_cur: lim * gib, rlim_max: lim * gib };
        libc::setrlimit(libc::RLIMIT_AS, &r);
        // no core dumps on abort
        let c = libc::rlimit { rlim_cur: 0, rlim_max: 0 };
        libc::setrlimit(libc::RLIMIT_CORE, &c);
    }
}

fn run_steps(sess: &mut Session, req: &Value, each_fresh: bool) -> Value {
    let fuel = req.get("fuel").and_then(|v| v.as_u64()).unwrap_or(UNLIMITED);
    // "alloc_cap": largest single allocation (bytes) a step may request before its fuel is zeroed
    let cap = req.get("alloc_cap").and_then(|v| v.as_u64()).unwrap_or(u64::MAX);
    let mut results = Vec::new();
    let empty = Vec::new();
    let steps = req.get("steps").and_then(|v| v.as_array()).unwrap_or(&empty);
    for st in steps {
        if each_fresh {
            *sess = Session::new();
        }
        let src = st.get("src").and_then(|v| v.as_str()).unwrap_or("");
        let alloc = st.get("alloc").and_then(|v| v.as_bool()).unwrap_or(false);
        let sfuel = st.get("fuel").and_then(|v| v.as_u64()).unwrap_or(fuel);
        sess.alloc_cap = cap;
        let mut r = sess.eval_opt(src, sfuel, alloc);
        sess.alloc_cap = u64::MAX;
        if let Some(names) = st.get("snap").and_then(|v| v.as_array()) {
            let names: Vec<String> = names.iter().filter_map(|n| n.as_str().map(|s| s.to_string())).collect();
            if sess.poisoned {
                r.as_object_mut().unwrap().insert("snap".into(), json!({"status": "poisoned"}));
            } else {
                r.as_object_mut().unwrap().insert("snap".into(), sess.snapshot(&names));
            }
        }
        let poisoned = sess.poisoned;
        results.push(r);
        if poisoned {
            // a panic may leave RefCells borrowed: the environment is not trustworthy any more
            if each_fresh {
                continue;
            }
            if req.get("stop_on_panic").and_then(|v| v.as_bool()).unwrap_or(true) {
                break;
            }
            *sess = Session::new();
        }
    }
    json!({"results": results})
}

fn serve() {
    let stdin = std::io::stdin();
    let stdout = std::io::stdout();
    let mut sessions: HashMap<u64, Session> = HashMap::new();
    let mut next_sid: u64 = 1;
    for line in stdin.lock().lines() {
        let line = match line {
            Ok(l) => l,
            Err(_) => break,
        };
        if line.trim().is_empty() {
            continue;
        }
        let req: Value = match serde_json::from_str(&line) {
            Ok(v) => v,
            Err(e) => {
                let mut o = stdout.lock();
                writeln!(o, "{}", json!({"error": format!("bad request: {}", e)})).ok();
                o.flush().ok();
                continue;
            }
        };
        let op = req.get("op").and_then(|v| v.as_str()).unwrap_or("");
        let resp = match op {
            "ping" => json!({"pong": true}),
            "open" => {
                let sid = next_sid;
                next_sid += 1;
                sessions.insert(sid, Session::new());
                json!({"sid": sid})
            }
            "close" => {
                if let Some(sid) = req.get("sid").and_then(|v| v.as_u64()) {
                    sessions.remove(&sid);
                }
                json!({"ok": true})
            }
            "parse" => parse_only(req.get("src").and_then(|v| v.as_str()).unwrap_or("")),
            "parse_many" => {
                let empty = Vec::new();
                let srcs = req.get("srcs").and_then(|v| v.as_array()).unwrap_or(&empty);
                json!({"results": srcs.iter().map(|s| parse_only(s.as_str().unwrap_or(""))).collect::<Vec<_>>()})
            }
            "globals" => Session::new().globals(),
            "run" => {
                let each_fresh = req.get("each_fresh").and_then(|v| v.as_bool()).unwrap_or(false);
                match req.get("sid").and_then(|v| v.as_u64()) {
                    Some(sid) => match sessions.get_mut(&sid) {
                        Some(s) => {
                            let r = run_steps(s, &req, each_fresh);
                            if s.poisoned {
                                sessions.insert(sid, Session::new());
                            }
                            r
                        }
                        None => json!({"error": "no such session"}),
                    },
                    None => {
                        let mut s = Session::new();
                        run_steps(&mut s, &req, each_fresh)
                    }
                }
            }
            _ => json!({"error": format!("unknown op {}", op)}),
        };
        let mut o = stdout.lock();
        writeln!(o, "{}", resp).ok();
        o.flush().ok();
    }
}

fn main() {
    set_limits();
    let stack = std::env::var("NLRUN_STACK_MIB").ok().and_then(|s| s.parse::<usize>().ok()).unwrap_or(2048);
    let h = std::thread::Builder::new().stack_size(stack << 20).spawn(serve).expect("spawn");
    h.join().ok();
}
