// Counting allocator: bytes and calls requested while `ENABLED` is set. Deterministic for a given
// program (hash seeds change bucket order, not table sizes).
use std::alloc::{GlobalAlloc, Layout, System};
use std::sync::atomic::{AtomicBool, AtomicU64, Ordering};

pub struct Counting;

pub static ENABLED: AtomicBool = AtomicBool::new(false);
pub static BYTES: AtomicU64 = AtomicU64::new(0);
pub static CALLS: AtomicU64 = AtomicU64::new(0);
// Growth guard: while CAP is below u64::MAX, a single request larger than CAP zeroes the evaluator's fuel (guarded hook
// noulith::verif::set_fuel), so a generated program that squares a bigint in a loop ends as status "fuel" at the next
// evaluation step instead of as a wall-clock hang. The fuel cells are plain thread-local Cells (no allocation, no destructor).
pub static CAP: AtomicU64 = AtomicU64::new(u64::MAX);
pub static TRIPPED: AtomicBool = AtomicBool::new(false);

#[inline]
fn guard(size: usize) {
    if size as u64 > CAP.load(Ordering::Relaxed) {
        TRIPPED.store(true, Ordering::Relaxed);
        noulith::verif::set_fuel(0);
    }
}

unsafe impl GlobalAlloc for Counting {
    unsafe fn alloc(&self, l: Layout) -> *mut u8 {
        guard(l.size());
        if ENABLED.load(Ordering::Relaxed) {
            BYTES.fetch_add(l.size() as u64, Ordering::Relaxed);
            CALLS.fetch_add(1, Ordering::Relaxed);
        }
        System.alloc(l)
    }
    unsafe fn dealloc(&self, p: *mut u8, l: Layout) {
        System.dealloc(p, l)
    }
    unsafe fn realloc(&self, p: *mut u8, l: Layout, new_size: usize) -> *mut u8 {
        guard(new_size);
        if ENABLED.load(Ordering::Relaxed) {
            // a realloc may copy the whole block: count the new size
            BYTES.fetch_add(new_size as u64, Ordering::Relaxed);
            CALLS.fetch_add(1, Ordering::Relaxed);
        }
        System.realloc(p, l, new_size)
    }
}

pub fn start() {
    BYTES.store(0, Ordering::SeqCst);
    CALLS.store(0, Ordering::SeqCst);
    ENABLED.store(true, Ordering::SeqCst);
}

pub fn stop() -> (u64, u64) {
    ENABLED.store(false, Ordering::SeqCst);
    (BYTES.load(Ordering::SeqCst), CALLS.load(Ordering::SeqCst))
}
