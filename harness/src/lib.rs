// nlharness: shared pieces for the verification harness of betaveros/noulith.
//   alloc  - counting global allocator (C02)
//   canon  - canonical, order-independent serialisation of noulith::Obj
//   sess   - an interpreter session with captured output and panic capture
pub mod alloc;
pub mod canon;
pub mod sess;
