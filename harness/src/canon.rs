// Canonical serialisation of noulith::Obj to tagged JSON. Walks the public structure, never Display
// (except for functions and streams, which are opaque). Dict entries are sorted by the canonical
// text of the key so that HashMap iteration order never enters a comparison.
use noulith::nnum::NNum;
use noulith::{key_to_obj, Func, Obj, Seq};
use serde_json::{json, Value};

fn num(n: &NNum) -> Value {
    match n {
        NNum::Int(i) => {
            let big = format!("{:?}", i).starts_with("Big");
            let s = i.to_bigint().to_string();
            if big {
                json!({"i": s, "big": true})
            } else {
                json!({"i": s})
            }
        }
        NNum::Rational(r) => json!({"q": [r.numer().to_string(), r.denom().to_string()]}),
        NNum::Float(f) => json!({"f": format!("{:016x}", f.to_bits())}),
        NNum::Complex(c) => {
            json!({"c": [format!("{:016x}", c.re.to_bits()), format!("{:016x}", c.im.to_bits())]})
        }
    }
}

fn hex(b: &[u8]) -> String {
    let mut s = String::with_capacity(b.len() * 2);
    for x in b {
        s.push_str(&format!("{:02x}", x));
    }
    s
}

pub fn canon(o: &Obj) -> Value {
    canon_d(o, 0)
}

fn canon_d(o: &Obj, depth: usize) -> Value {
    if depth > 200 {
        return json!({"deep": true});
    }
    match o {
        Obj::Null => Value::Null,
        Obj::Num(n) => num(n),
        Obj::Seq(Seq::String(s)) => json!({"s": s.as_str()}),
        Obj::Seq(Seq::Bytes(b)) => json!({"b": hex(b)}),
        Obj::Seq(Seq::List(l)) => {
            json!({"l": l.iter().map(|x| canon_d(x, depth + 1)).collect::<Vec<_>>()})
        }
        Obj::Seq(Seq::Vector(v)) => json!({"v": v.iter().map(num).collect::<Vec<_>>()}),
        Obj::Seq(Seq::Dict(d, def)) => {
            let mut entries: Vec<(String, Value, Value)> = d
                .iter()
                .map(|(k, v)| {
                    let kc = canon_d(&key_to_obj(k.clone()), depth + 1);
                    (kc.to_string(), kc, canon_d(v, depth + 1))
                })
                .collect();
            entries.sort_by(|a, b| a.0.cmp(&b.0));
            let ents: Vec<Value> = entries.into_iter().map(|(_, k, v)| json!([k, v])).collect();
            match def {
                Some(dv) => json!({"d": ents, "def": canon_d(dv, depth + 1)}),
                None => json!({"d": ents}),
            }
        }
        Obj::Seq(Seq::Stream(s)) => json!({"stream": format!("{}", s)}),
        Obj::Func(f, p) => {
            let kind = match f {
                Func::Builtin(_) => "builtin",
                Func::Closure(_) => "closure",
                Func::Type(_) => "type",
                _ => "other",
            };
            json!({"fn": format!("{}", f), "kind": kind, "prec": format!("{:016x}", p.0.to_bits()),
                   "assoc": format!("{:?}", p.1)})
        }
        Obj::Instance(s, fields) => {
            json!({"inst": s.name.as_str(), "sid": s.id,
                   "fields": fields.iter().map(|x| canon_d(x, depth + 1)).collect::<Vec<_>>()})
        }
    }
}
