// One interpreter session: an Env with initialize() applied, captured output, empty input.
use crate::canon::canon;
use noulith::{evaluate, initialize, parse, Env, NErr, Obj, RefCell, Rc, TopEnv, WriteMaybeExtractable};
use serde_json::{json, Value};
use std::io::Write;
use std::panic::{catch_unwind, AssertUnwindSafe};
use std::sync::{Arc, Mutex, Once};

#[derive(Clone)]
pub struct SharedBuf(pub Arc<Mutex<Vec<u8>>>);
impl Write for SharedBuf {
    fn write(&mut self, buf: &[u8]) -> std::io::Result<usize> {
        let mut g = self.0.lock().unwrap();
        if g.len() < (1 << 22) {
            g.extend_from_slice(buf);
        }
        Ok(buf.len())
    }
    fn flush(&mut self) -> std::io::Result<()> {
        Ok(())
    }
}
impl WriteMaybeExtractable for SharedBuf {}

static LAST_PANIC: Mutex<Option<(String, String)>> = Mutex::new(None);
static HOOK: Once = Once::new();

pub fn install_panic_hook() {
    HOOK.call_once(|| {
        std::panic::set_hook(Box::new(|info| {
            let msg = if let Some(s) = info.payload().downcast_ref::<&str>() {
                s.to_string()
            } else if let Some(s) = info.payload().downcast_ref::<String>() {
                s.clone()
            } else {
                "<non-string panic payload>".to_string()
            };
            let loc = match info.location() {
                Some(l) => format!("{}:{}", l.file(), l.line()),
                None => "?".to_string(),
            };
            if let Ok(mut g) = LAST_PANIC.lock() {
                *g = Some((msg, loc));
            }
        }));
    });
}

pub fn take_panic() -> Option<(String, String)> {
    LAST_PANIC.lock().ok().and_then(|mut g| g.take())
}

pub struct Session {
    pub env: Rc<RefCell<Env>>,
    pub out: SharedBuf,
    pub poisoned: bool,
    pub alloc_cap: u64,
}

pub const UNLIMITED: u64 = u64::MAX;

impl Session {
    pub fn new() -> Session {
        let out = SharedBuf(Arc::new(Mutex::new(Vec::new())));
        let mut env = Env::new(
            TopEnv {
                backrefs: Vec::new(),
                input: Box::new(std::io::empty()),
                output: Box::new(out.clone()),
            },
            false,
        );
        initialize(&mut env);
        Session { env: Rc::new(RefCell::new(env)), out, poisoned: false, alloc_cap: u64::MAX }
    }

    fn take_output(&self) -> String {
        let mut g = self.out.0.lock().unwrap();
        let s = String::from_utf8_lossy(&g).into_owned();
        g.clear();
        s
    }

    // Evaluate `src` in the session's top environment. `fuel` = step budget (UNLIMITED for none).
    pub fn eval(&mut self, src: &str, fuel: u64) -> Value {
        self.eval_opt(src, fuel, false)
    }

    pub fn eval_opt(&mut self, src: &str, fuel: u64, count_alloc: bool) -> Value {
        install_panic_hook();
        let _ = take_panic();
        let parsed = catch_unwind(AssertUnwindSafe(|| parse(src)));
        let expr = match parsed {
            Err(_) => {
                let p = take_panic().unwrap_or(("?".into(), "?".into()));
                return json!({"status": "panic", "phase": "parse", "panic": {"msg": p.0, "loc": p.1},
                              "output": ""});
            }
            Ok(Err(e)) => {
                return json!({"status": "parse_error", "msg": e.0, "output": ""});
            }
            Ok(Ok(None)) => {
                return json!({"status": "ok", "value": Value::Null, "empty": true, "output": "", "fuel_used": 0});
            }
            Ok(Ok(Some(e))) => e,
        };
        noulith::verif::set_fuel(fuel);
        crate::alloc::TRIPPED.store(false, std::sync::atomic::Ordering::SeqCst);
        crate::alloc::CAP.store(self.alloc_cap, std::sync::atomic::Ordering::SeqCst);
        if count_alloc {
            crate::alloc::start();
        }
        let env = self.env.clone();
        let res = catch_unwind(AssertUnwindSafe(|| evaluate(&env, &expr)));
        crate::alloc::CAP.store(u64::MAX, std::sync::atomic::Ordering::SeqCst);
        let (bytes, calls) = if count_alloc { crate::alloc::stop() } else { (0, 0) };
        let used = noulith::verif::fuel_used();
        let tripped = crate::alloc::TRIPPED.swap(false, std::sync::atomic::Ordering::SeqCst);
        let exhausted = noulith::verif::exhausted() || tripped;
        noulith::verif::set_fuel(UNLIMITED);
        let output = self.take_output();
        let mut v = match res {
            Err(_) => {
                self.poisoned = true;
                let p = take_panic().unwrap_or(("?".into(), "?".into()));
                json!({"status": "panic", "phase": "eval", "panic": {"msg": p.0, "loc": p.1}})
            }
            Ok(_) if exhausted => json!({"status": "fuel", "alloc_cap_tripped": tripped}),
            Ok(Ok(o)) => {
                // canonicalisation may itself hit a broken invariant; keep it inside catch_unwind
                match catch_unwind(AssertUnwindSafe(|| canon(&o))) {
                    Ok(c) => json!({"status": "ok", "value": c}),
                    Err(_) => {
                        let p = take_panic().unwrap_or(("?".into(), "?".into()));
                        json!({"status": "panic", "phase": "canon", "panic": {"msg": p.0, "loc": p.1}})
                    }
                }
            }
            Ok(Err(NErr::Throw(o, _trace))) => {
                let msg = match &o {
                    Obj::Seq(noulith::Seq::String(s)) => s.as_str().to_string(),
                    _ => String::new(),
                };
                json!({"status": "err", "thrown": canon(&o), "msg": msg})
            }
            Ok(Err(NErr::Break(n, _))) => json!({"status": "ctrl", "what": "break", "n": n}),
            Ok(Err(NErr::Continue(n))) => json!({"status": "ctrl", "what": "continue", "n": n}),
            Ok(Err(NErr::Return(_))) => json!({"status": "ctrl", "what": "return"}),
        };
        let m = v.as_object_mut().unwrap();
        m.insert("output".into(), json!(output));
        m.insert("fuel_used".into(), json!(used));
        if count_alloc {
            m.insert("alloc_bytes".into(), json!(bytes));
            m.insert("alloc_calls".into(), json!(calls));
        }
        if self.poisoned {
            m.insert("poisoned".into(), json!(true));
        }
        v
    }

    pub fn snapshot(&self, names: &[String]) -> Value {
        let mut m = serde_json::Map::new();
        let env = match self.env.try_borrow() {
            Ok(e) => e,
            Err(_) => return json!({"status": "poisoned"}),
        };
        for n in names {
            match env.vars.get(n) {
                Some((_, cell)) => match cell.try_borrow() {
                    Ok(o) => {
                        m.insert(n.clone(), json!({"v": canon(&o)}));
                    }
                    Err(_) => {
                        m.insert(n.clone(), json!({"borrowed": true}));
                    }
                },
                None => {
                    m.insert(n.clone(), json!({"undef": true}));
                }
            }
        }
        json!({"status": "ok", "vars": Value::Object(m)})
    }

    pub fn globals(&self) -> Value {
        let env = self.env.borrow();
        let mut names: Vec<&String> = env.vars.keys().collect();
        names.sort();
        let mut out = Vec::new();
        for n in names {
            let (_, cell) = &env.vars[n];
            let o = cell.borrow();
            let kind = match &*o {
                Obj::Func(noulith::Func::Builtin(_), _) => "builtin",
                Obj::Func(noulith::Func::Type(_), _) => "type",
                Obj::Func(..) => "func",
                _ => "const",
            };
            let (prec, assoc) = match &*o {
                Obj::Func(_, p) => (p.0, format!("{:?}", p.1)),
                _ => (0.0, String::new()),
            };
            out.push(json!({"name": n, "kind": kind, "prec": prec, "assoc": assoc}));
        }
        json!({"status": "ok", "globals": out})
    }
}

pub fn parse_only(src: &str) -> Value {
    install_panic_hook();
    let _ = take_panic();
    match catch_unwind(AssertUnwindSafe(|| parse(src))) {
        Err(_) => {
            let p = take_panic().unwrap_or(("?".into(), "?".into()));
            json!({"status": "panic", "panic": {"msg": p.0, "loc": p.1}})
        }
        Ok(Err(e)) => json!({"status": "parse_error", "msg": e.0}),
        Ok(Ok(None)) => json!({"status": "empty"}),
        Ok(Ok(Some(_))) => json!({"status": "ok"}),
    }
}
