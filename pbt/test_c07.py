"""C07 - exact rationals and upward-only coercion int < rational < float < complex.

Oracles:
  * exact levels (int, rational): fractions.Fraction, result level = max of operand levels;
  * a pair whose higher level is float/complex: metamorphic - `a op b` must equal `conv(a) op conv(b)`
    computed by the interpreter at that level (conv = float(x) or x + 0i), bit for bit;
    float-float + - * / % additionally against IEEE (Python float / math.fmod);
  * numerator denominator floor ceil round int rational float against exact arithmetic;
  * vectors: element-wise reference with scalar broadcast; unequal lengths must raise.
"""
import math
from fractions import Fraction

from hypothesis import strategies as st

from .gens import wide_ints
from .core import Fail, GeneratorBug
from .values import (Vec, canon, fbits, from_canon, is_num, level, norm, render, render_float, render_int)

PID = "C07"
LEVEL = "exploration"
RULE = ("Hypothesis batches of 24 cases over (operator, operand levels, production forms); non-trivial = "
        "operands of different levels, or a negative fraction with // %% %, or an integral-valued rational, "
        "or a vector operand; distinct by Noulith source text")
ASSUMPTIONS = [
    "fractions.Fraction and CPython float are the reference for exact and IEEE arithmetic",
    "float // and %% are only compared level-against-level (BUILTINS.md leaves negative divisors open)",
    "% by an exact zero and 0^(negative) are excluded here (unwinding is C14's claim)",
    "round() ties away from zero; int() truncates",
    "complex operands have finite parts; exponents are ints in -12..12",
]

OPS = ["+", "-", "*", "/", "%", "//", "%%"]
UNARY = ["numerator", "denominator", "floor", "ceil", "round", "int", "rational", "float", "neg", "abs"]


def rat_src(v, form):
    p, q = v.numerator, v.denominator
    if form == "scaled":
        return "(%s/%d)" % (render_int(p * 3), q * 3)
    if form == "sum":
        return "(%s/%d + 0/7)" % (render_int(p), q)
    return "(%s/%d)" % (render_int(p), q)


def complex_src(z):
    re, im = z.real, z.imag
    a = render_float(re)
    b = repr(abs(im))
    if "e" in b or "n" in b:
        raise GeneratorBug("complex part not renderable: %r" % (z,))
    if im < 0 or (im == 0 and math.copysign(1, im) < 0):
        return "(%s - %si)" % (a, b)
    return "(%s + %si)" % (a, b)


def src_of(v, form="std"):
    if isinstance(v, Fraction):
        return rat_src(v, form)
    if isinstance(v, complex):
        return complex_src(v)
    if isinstance(v, Vec):
        return "V(%s)" % ", ".join(src_of(x, form) for x in v.xs)
    return render(v)


def fdiv(a, b):
    """IEEE division of Python floats."""
    if math.isnan(a) or math.isnan(b):
        return math.nan
    if b == 0:
        if a == 0:
            return math.nan
        neg = (math.copysign(1, a) < 0) != (math.copysign(1, b) < 0)
        return -math.inf if neg else math.inf
    if math.isinf(a) and math.isinf(b):
        return math.nan
    return a / b


def ffmod(a, b):
    if math.isnan(a) or math.isnan(b) or math.isinf(a) or b == 0:
        return math.nan
    if math.isinf(b):
        return a
    return math.fmod(a, b)


def exact_bin(op, a, b):
    """both operands int or Fraction"""
    la = max(level(a), level(b))
    fa, fb = Fraction(a), Fraction(b)

    def lift(x):
        return Fraction(x) if la == 1 else int(x)

    if op == "+":
        return ("ok", lift(fa + fb))
    if op == "-":
        return ("ok", lift(fa - fb))
    if op == "*":
        return ("ok", lift(fa * fb))
    if op == "/":
        if fb == 0:
            return ("ok", math.inf if fa > 0 else (-math.inf if fa < 0 else math.nan))
        return ("ok", fa / fb)  # always rational
    if op == "//":
        if fb == 0:
            return ("err",)
        return ("ok", lift(math.floor(fa / fb)))
    if op == "%%":
        if fb == 0:
            return ("err",)
        return ("ok", lift(fa - math.floor(fa / fb) * fb))
    if op == "%":
        if fb == 0:
            return ("err",)
        q = fa / fb
        t = math.floor(q) if q >= 0 else math.ceil(q)
        return ("ok", lift(fa - t * fb))
    if op == "^":
        if level(b) != 0:
            return ("skip", "non_int_exponent")
        if b >= 0:
            r = fa ** b
            return ("ok", Fraction(r) if level(a) == 1 else int(r))
        if fa == 0:
            return ("ok", math.inf)  # 1 / 0 falls back to float infinity, as `/` does
        return ("val", Fraction(1) / (fa ** (-b)))  # exact value, int or rational accepted
    raise ValueError(op)


def float_bin(op, a, b):
    if op == "+":
        return a + b
    if op == "-":
        return a - b
    if op == "*":
        return a * b
    if op == "/":
        return fdiv(a, b)
    if op == "%":
        return ffmod(a, b)
    return None


def val_eq_exact(got, want):
    """got is canonical JSON int or rational; value equality with Fraction `want`"""
    if got is None:
        return False
    if "i" in got:
        return Fraction(int(got["i"])) == want
    if "q" in got:
        return Fraction(int(got["q"][0]), int(got["q"][1])) == want and math.gcd(int(got["q"][0]), int(got["q"][1])) == 1 and int(got["q"][1]) > 0
    return False


def rnd_half_away(x):
    f = math.floor(x)
    d = x - f
    if d > Fraction(1, 2):
        return f + 1
    if d < Fraction(1, 2):
        return f
    return f + 1 if x >= 0 else f


def ref_unary(fn, a):
    lv = level(a)
    if lv == 3:
        return ("skip", "complex_unary")
    if lv == 2 and (math.isnan(a) or math.isinf(a)):
        return ("skip", "nonfinite_unary")
    x = Fraction(a)
    if fn == "numerator":
        return ("ok", x.numerator) if lv <= 1 else ("err",)
    if fn == "denominator":
        return ("ok", x.denominator) if lv <= 1 else ("err",)
    if fn == "floor":
        return ("ok", math.floor(x))
    if fn == "ceil":
        return ("ok", math.ceil(x))
    if fn == "round":
        return ("ok", rnd_half_away(x))
    if fn == "int":
        return ("ok", math.floor(x) if x >= 0 else math.ceil(x))
    if fn == "rational":
        return ("ok", x)
    if fn == "float":
        try:
            return ("ok", float(a) if lv == 2 else (x.numerator / x.denominator))
        except OverflowError:
            return ("ok", math.inf if x > 0 else -math.inf)
    if fn == "neg":
        if lv == 2:
            return ("ok", -a)
        return ("ok", -a)
    if fn == "abs":
        return ("ok", abs(a))
    raise ValueError(fn)


UN_SRC = {"neg": "-(a)"}


def elem_ref(op, a, b):
    """reference for one scalar pair at any level -> ('ok', v) | ('val', Fraction) | ('err',) | ('skip',) | ('meta',)"""
    if max(level(a), level(b)) <= 1:
        return exact_bin(op, a, b)
    return ("meta",)


def conv_src(x_src, lv):
    return "float(%s)" % x_src if lv == 2 else "(%s - 0i)" % x_src


def build(c):
    """-> list of sources to evaluate for this case"""
    t = c["t"]
    if t == "bin":
        a, b = from_canon(c["a"]), from_canon(c["b"])
        A, B = src_of(a, c.get("fa", "std")), src_of(b, c.get("fb", "std"))
        srcs = ["(\\a, b -> a %s b)(%s, %s)" % (c["op"], A, B)]
        lv = max(level(a), level(b))
        if lv >= 2:
            srcs.append("(\\a, b -> a %s b)(%s, %s)" % (c["op"], conv_src(A, lv), conv_src(B, lv)))
        return srcs
    if t == "un":
        a = from_canon(c["a"])
        A = src_of(a, c.get("fa", "std"))
        body = UN_SRC.get(c["fn"], "%s(a)" % c["fn"])
        return ["(\\a -> %s)(%s)" % (body, A)]
    if t == "vec":
        a, b = from_canon(c["a"]), from_canon(c["b"])
        return ["(\\a, b -> a %s b)(%s, %s)" % (c["op"], src_of(a), src_of(b))]
    raise ValueError(t)


def is_nontrivial(c):
    if c["t"] == "vec":
        return True
    a = from_canon(c["a"])
    if c["t"] == "un":
        return isinstance(a, Fraction) or isinstance(a, float)
    b = from_canon(c["b"])
    if level(a) != level(b):
        return True
    for x in (a, b):
        if isinstance(x, Fraction) and x.denominator == 1:
            return True
        if isinstance(x, Fraction) and x < 0 and c["op"] in ("//", "%%", "%"):
            return True
    return False


def judge(c, res):
    """res: list of results for build(c). Returns Fail or None, or ('skip', why)."""
    t = c["t"]
    src0 = build(c)[0]
    r0 = res[0]
    if r0["status"] == "parse_error":
        raise GeneratorBug("does not parse: %s" % src0)
    if t == "bin":
        a, b = from_canon(c["a"]), from_canon(c["b"])
        op = c["op"]
        la, lb = level(a), level(b)
        lv = max(la, lb)
        sig = "C07:bin:%s:%s,%s" % (op, ["int", "rational", "float", "complex"][la], ["int", "rational", "float", "complex"][lb])
        if lv <= 1:
            r = exact_bin(op, a, b)
            if r[0] == "skip":
                return ("skip", r[1])
            if r[0] == "err":
                if r0["status"] != "err":
                    return Fail(sig + ":should_raise", "%s: expected an error, got %s" % (src0, r0))
                return None
            if r0["status"] != "ok":
                return Fail(sig + ":" + r0["status"], "%s: expected a value, got %s" % (src0, r0))
            got = norm(r0["value"])
            if r[0] == "val":
                if not val_eq_exact(got, r[1]):
                    return Fail(sig + ":wrong", "%s: expected exact value %s, got %s" % (src0, r[1], got))
                return None
            want = norm(canon(r[1]))
            if got != want:
                return Fail(sig + ":wrong", "%s: expected %s (%r), got %s" % (src0, want, r[1], got))
            return None
        # float / complex level: metamorphic against the converted operands
        if op == "/" and lv == 3:
            # the statement's level rule covers + - * % // %% only; complex division by a real
            # scalar and by a complex number legitimately round differently
            return ("skip", "complex_division")
        r1 = res[1]
        if op in ("//", "%%") and lv == 2 and ((lb == 2 and b == 0) or (lb < 2 and b == 0)):
            if r0["status"] != "err":
                return Fail(sig + ":should_raise", "%s: zero divisor must raise, got %s" % (src0, r0))
            return None
        if r0["status"] == "panic" or r1["status"] == "panic":
            return Fail(sig + ":panic", "%s: %s / converted: %s" % (src0, r0, r1))
        if r0["status"] != r1["status"]:
            return Fail(sig + ":level_mismatch", "%s gives %s but on converted operands %s" % (src0, r0, r1))
        if r0["status"] == "ok":
            g0, g1 = norm(r0["value"]), norm(r1["value"])
            if g0 != g1:
                return Fail(sig + ":level_mismatch", "%s = %s but the same operation on converted operands = %s" % (src0, g0, g1))
            want_tag = "f" if lv == 2 else "c"
            if want_tag not in g0:
                return Fail(sig + ":level", "%s: result %s is not at level %s" % (src0, g0, "float" if lv == 2 else "complex"))
            if la == 2 and lb == 2:
                w = float_bin(op, a, b)
                if w is not None and g0 != norm({"f": fbits(w)}):
                    return Fail(sig + ":ieee", "%s: IEEE result %r (%s), got %s" % (src0, w, fbits(w), g0))
        return None
    if t == "un":
        a = from_canon(c["a"])
        fn = c["fn"]
        sig = "C07:un:%s:%s" % (fn, ["int", "rational", "float", "complex"][level(a)])
        r = ref_unary(fn, a)
        if r[0] == "skip":
            return ("skip", r[1])
        if r[0] == "err":
            if r0["status"] != "err":
                return Fail(sig + ":should_raise", "%s: expected error, got %s" % (src0, r0))
            return None
        if r0["status"] != "ok":
            return Fail(sig + ":" + r0["status"], "%s: expected a value, got %s" % (src0, r0))
        got, want = norm(r0["value"]), norm(canon(r[1]))
        if got != want:
            return Fail(sig + ":wrong", "%s: expected %s (%r), got %s" % (src0, want, r[1], got))
        return None
    if t == "vec":
        a, b = from_canon(c["a"]), from_canon(c["b"])
        op = c["op"]
        sig = "C07:vec:%s" % op
        xs = a.xs if isinstance(a, Vec) else None
        ys = b.xs if isinstance(b, Vec) else None
        if xs is not None and ys is not None and len(xs) != len(ys):
            if r0["status"] != "err":
                return Fail(sig + ":lengths", "%s: different lengths must be rejected, got %s" % (src0, r0))
            return None
        n = len(xs) if xs is not None else len(ys)
        pairs = [((xs[i] if xs is not None else a), (ys[i] if ys is not None else b)) for i in range(n)]
        refs = [exact_bin(op, x, y) for x, y in pairs]
        if any(r[0] == "skip" for r in refs):
            return ("skip", "vec_elem_skip")
        if any(r[0] == "err" for r in refs):
            if r0["status"] != "err":
                return Fail(sig + ":should_raise", "%s: expected an error, got %s" % (src0, r0))
            return None
        if r0["status"] != "ok":
            return Fail(sig + ":" + r0["status"], "%s: expected a value, got %s" % (src0, r0))
        got = norm(r0["value"])
        if "v" not in got or len(got["v"]) != n:
            return Fail(sig + ":shape", "%s: expected a vector of %d, got %s" % (src0, n, got))
        for g, r in zip(got["v"], refs):
            if r[0] == "val":
                if not val_eq_exact(g, r[1]):
                    return Fail(sig + ":wrong", "%s: element expected %s got %s" % (src0, r[1], g))
            elif g != norm(canon(r[1])):
                return Fail(sig + ":wrong", "%s: element expected %r got %s (whole: %s)" % (src0, r[1], g, got))
        return None
    raise ValueError(t)


def check_batch(nl, cases, ctx=None):
    all_srcs = []
    spans = []
    for c in cases:
        s = build(c)
        spans.append((len(all_srcs), len(s)))
        all_srcs.extend(s)
    results = nl.run(all_srcs, fuel=2_000_000, stop_on_panic=False)
    fails = []
    for i, (c, (off, n)) in enumerate(zip(cases, spans)):
        r = judge(c, results[off:off + n])
        if isinstance(r, tuple):
            if ctx is not None:
                ctx.exclude(r[1])
            continue
        if ctx is not None:
            nt = is_nontrivial(c)
            if c["t"] == "bin":
                a, b = from_canon(c["a"]), from_canon(c["b"])
                cls = "bin:%s:L%d,L%d" % (c["op"], level(a), level(b))
            elif c["t"] == "un":
                cls = "un:%s:L%d" % (c["fn"], level(from_canon(c["a"])))
            else:
                cls = "vec:%s" % c["op"]
            ctx.count(all_srcs[off], nt, cls)
            if nt:
                ctx.sample({"src": all_srcs[off], "result": results[off].get("value", results[off]["status"])})
        if r is not None:
            r.index = i
            fails.append(r)
    return fails


CHECKS = {"batch": check_batch}

# ---- generators ---------------------------------------------------------------------------------


def s_ints():
    b = st.builds(lambda b, d, s: s * (b + d), st.sampled_from([0, 1, 2, 2 ** 31, 2 ** 53, 2 ** 62, 2 ** 63, 2 ** 64]),
                  st.integers(-2, 2), st.sampled_from([1, -1]))
    big = st.integers(1, 220).flatmap(lambda k: st.integers(-(2 ** k), 2 ** k))
    return st.one_of(st.integers(-12, 12), b, big, wide_ints(30, 220))


def s_rats():
    small = st.builds(Fraction, st.integers(-30, 30), st.integers(1, 12))
    big = st.builds(Fraction, st.integers(1, 200).flatmap(lambda k: st.integers(-(2 ** k), 2 ** k)),
                    st.integers(1, 200).flatmap(lambda k: st.integers(1, 2 ** k)))
    integral = st.builds(Fraction, s_ints())
    # numerators / denominators wider than a double's mantissa and wider than a machine word, all widths equally likely
    wide = st.builds(Fraction, wide_ints(1, 200), wide_ints(1, 200, signed=False))
    wide53 = st.builds(Fraction, wide_ints(50, 70), wide_ints(1, 70, signed=False))
    return st.one_of(small, small, big, integral, wide, wide53)


def s_floats():
    special = st.sampled_from([0.0, -0.0, math.inf, -math.inf, math.nan, 2.0 ** 53, 2.0 ** 53 + 2, 2.0 ** 53 - 1,
                               5e-324, 2.2250738585072014e-308, 1.7976931348623157e308, 0.1, 0.5, 1.5, -2.5, 1e30, 1e-30,
                               2.0 ** 31, -(2.0 ** 31), 2.0 ** 32, 2.0 ** 62, 2.0 ** 63, -(2.0 ** 63), 2.0 ** 63 - 1024, -(2.0 ** 63) - 2048,
                               2.0 ** 63 + 2048, 2.0 ** 64, -(2.0 ** 64), 1e19, 2.0 ** 63 + 0.0, 4611686018427387904.5 - 0.5])
    # integer-valued floats at the machine-word boundaries and of every width (float -> int conversions have word fast paths)
    intf = st.one_of(s_ints(), wide_ints(40, 80)).map(float)
    halff = st.builds(lambda n, s: s * (n + 0.5), wide_ints(1, 52, signed=False), st.sampled_from([1, -1]))
    dyadic = st.builds(lambda n, k: n / (2 ** k), st.integers(-4096, 4096), st.integers(0, 10))
    return st.one_of(special, dyadic, st.floats(allow_nan=False, allow_infinity=False), st.floats(width=32, allow_nan=False), intf, halff)


def s_complex():
    part = st.builds(lambda n: n / 8, st.integers(-64, 64))
    return st.builds(lambda re, im: complex(re + 0.0 if re != 0 else 0.0, im), part, part)


def s_num(levels=(0, 1, 2, 3)):
    m = {0: s_ints(), 1: s_rats(), 2: s_floats(), 3: s_complex()}
    return st.one_of(*[m[l] for l in levels])


rforms = st.sampled_from(["std", "std", "scaled", "sum"])


def s_cases():
    exact = st.builds(lambda op, a, b, fa, fb: {"t": "bin", "op": op, "a": canon(a), "b": canon(b), "fa": fa, "fb": fb},
                      st.sampled_from(OPS), s_num((0, 1)), s_num((0, 1)), rforms, rforms)
    # divisions where the quotient is near an integer
    neardiv = st.builds(lambda op, q, b, d, fa: {"t": "bin", "op": op, "a": canon(q * b + d), "b": canon(b), "fa": fa, "fb": "std"},
                        st.sampled_from(["//", "%%", "%", "/"]), st.integers(-9, 9), s_rats().filter(lambda x: x != 0),
                        st.sampled_from([Fraction(0), Fraction(1, 7), Fraction(-1, 7)]), rforms)
    mixed = st.builds(lambda op, a, b: {"t": "bin", "op": op, "a": canon(a), "b": canon(b)},
                      st.sampled_from(OPS), s_num(), s_num())
    fl = st.builds(lambda op, a, b: {"t": "bin", "op": op, "a": canon(a), "b": canon(b)},
                   st.sampled_from(OPS), s_floats(), s_floats())
    # a rational wider than a double's mantissa meeting a float of comparable (or neutral) magnitude: the rational has to be
    # converted with a single correct rounding, and a float that is neither huge nor tiny relative to it keeps the last bit visible
    def near(r, m):
        try:
            return (r.numerator / r.denominator) * m
        except OverflowError:
            return 1.0
    wrat = st.builds(Fraction, wide_ints(40, 120), wide_ints(1, 120, signed=False))
    sens = st.sampled_from([0.0, -0.0, 1.0, -1.0, 0.5, 2.0, 1.5, 3.0, 0.25])
    rf = st.builds(lambda op, r, m, rel, swap: {"t": "bin", "op": op, "a": canon(m if not rel else near(r, m)) if swap else canon(r),
                                                 "b": canon(r) if swap else canon(m if not rel else near(r, m))},
                   st.sampled_from(OPS), wrat, sens, st.booleans(), st.booleans())
    power = st.builds(lambda a, e, fa: {"t": "bin", "op": "^", "a": canon(a), "b": canon(e), "fa": fa},
                      s_num((0, 1)), st.integers(-12, 12), rforms)
    un = st.builds(lambda fn, a, fa: {"t": "un", "fn": fn, "a": canon(a), "fa": fa},
                   st.sampled_from(UNARY), s_num((0, 1, 1, 2)), rforms)
    # rounding family exactly at and next to ties
    ties = st.builds(lambda fn, n, d: {"t": "un", "fn": fn, "a": canon(Fraction(2 * n + 1, 2) + d)},
                     st.sampled_from(["floor", "ceil", "round", "int"]), st.integers(-50, 50),
                     st.sampled_from([Fraction(0), Fraction(1, 10 ** 20), Fraction(-1, 10 ** 20)]))
    tiesf = st.builds(lambda fn, n: {"t": "un", "fn": fn, "a": canon(n + 0.5)},
                      st.sampled_from(["floor", "ceil", "round", "int"]), st.integers(-50, 50))
    elem = s_num((0, 1))
    vecs = st.lists(elem, min_size=0, max_size=4).map(Vec)
    vec = st.builds(lambda op, a, b: {"t": "vec", "op": op, "a": canon(a), "b": canon(b)},
                    st.sampled_from(OPS), st.one_of(vecs, vecs, elem), vecs)
    small_e = st.integers(-6, 6)
    vpow = st.builds(lambda a, b: {"t": "vec", "op": "^", "a": canon(a), "b": canon(b)},
                     st.one_of(vecs, elem), st.lists(small_e, min_size=0, max_size=4).map(Vec))
    vpow2 = st.builds(lambda a, b: {"t": "vec", "op": "^", "a": canon(a), "b": canon(b)}, vecs, small_e)
    vec2 = st.builds(lambda op, a, b: {"t": "vec", "op": op, "a": canon(a), "b": canon(b)},
                     st.sampled_from(OPS), vecs, elem)
    veq = st.integers(0, 4).flatmap(lambda n: st.builds(
        lambda op, a, b: {"t": "vec", "op": op, "a": canon(Vec(a)), "b": canon(Vec(b))},
        st.sampled_from(OPS), st.lists(elem, min_size=n, max_size=n), st.lists(elem, min_size=n, max_size=n)))
    return st.one_of(exact, exact, neardiv, mixed, mixed, fl, power, un, un, ties, tiesf, vec, vec2, veq, vpow, vpow2, rf)


def worker(ctx):
    n = ctx.share(ctx.scale(3200, 90000))

    def body(batch):
        # a vector power with exponent vector elements must be int: filter here by construction
        ctx.check("batch", batch)

    ctx.hyp(st.lists(s_cases(), min_size=24, max_size=24), body, n, label="c07")
