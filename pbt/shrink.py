"""Triage helper (not used by any registered check): greedy structural minimiser for a saved replay.

    python3-vt -m pbt.shrink pbt.test_c05 replays/C05-xxxx.json [out.json]

Works on cases that are nested JSON lists whose nodes are ["tag", ...]: a node may be replaced by one
of its sub-nodes or by a literal, and elements of plain lists of nodes may be deleted, as long as the
property's own oracle (mod.CHECKS[check]) still reports a failure whose signature ends in the same
kind (text after the last ':'). The minimised case is written next to the input.
"""
import copy
import importlib
import json
import sys

from .core import GeneratorBug, Inconclusive
from .runner import NL


def is_node(x):
    return isinstance(x, list) and len(x) > 0 and isinstance(x[0], str)


def paths(x, pre=()):
    """all positions holding a list (node or list of things)"""
    if isinstance(x, list):
        yield pre
        for i, c in enumerate(x):
            yield from paths(c, pre + (i,))
    elif isinstance(x, dict):
        for k, c in x.items():
            yield from paths(c, pre + (k,))


def get(x, p):
    for k in p:
        x = x[k]
    return x


def put(root, p, v):
    root = copy.deepcopy(root)
    if not p:
        return v
    get(root, p[:-1])[p[-1]] = v
    return root


def subnodes(x):
    out = []

    def go(y, top):
        if is_node(y) and not top:
            out.append(y)
            return
        if isinstance(y, list):
            for c in y:
                go(c, False)
    go(x, True)
    return out


def size(x):
    return len(json.dumps(x))


def main():
    mod = importlib.import_module(sys.argv[1])
    path = sys.argv[2]
    payload = json.load(open(path))
    chk = mod.CHECKS[payload["check"]]
    kind = payload["sig"].rsplit(":", 1)[-1]
    nl = NL()

    def fails(case):
        try:
            res = chk(nl, case, None)
        except (GeneratorBug, Inconclusive, Exception):
            return None
        fl = res if isinstance(res, list) else ([res] if res is not None else [])
        for f in fl:
            if f.sig.rsplit(":", 1)[-1] == kind:
                return f
        return None

    case = payload["case"]
    best = fails(case)
    if best is None:
        print("does not fail any more")
        return 1
    lits = [["int", 0], ["int", 1], ["null"], ["list", []]]
    progress = True
    while progress:
        progress = False
        for p in sorted(paths(case), key=len):
            try:
                cur = get(case, p)
            except (IndexError, KeyError, TypeError):
                continue
            cands = []
            if is_node(cur):
                cands += subnodes(cur)
                cands += [l for l in lits if l != cur]
            elif isinstance(cur, list):
                for i in range(len(cur)):
                    cands.append(cur[:i] + cur[i + 1:])
            for c in cands:
                if size(c) >= size(cur):
                    continue
                trial = put(case, p, c)
                f = fails(trial)
                if f is not None:
                    case, best, progress = trial, f, True
                    print("size %d: %s" % (size(case), f.detail[:200]), flush=True)
                    break
            if progress:
                break
    out = sys.argv[3] if len(sys.argv) > 3 else path.replace(".json", ".min.json")
    payload.update(case=case, sig=best.sig, detail=best.detail)
    json.dump(payload, open(out, "w"))
    print("MIN [%s] %s" % (best.sig, best.detail))
    nl.close()
    return 0


if __name__ == "__main__":
    sys.exit(main())
