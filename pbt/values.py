"""Python model of Noulith data, its canonical JSON (same shape as harness/src/canon.rs) and a
renderer to Noulith source that constructs exactly the value.

Model types:  None | int | Fraction (rational level, even when integral) | float | complex | str |
bytes | list | Vec | NDict | Inst | Opaque
"""
import json
import math
import struct
from fractions import Fraction


class Vec:
    __slots__ = ("xs",)

    def __init__(self, xs):
        self.xs = list(xs)

    def __repr__(self):
        return "Vec(%r)" % (self.xs,)

    def __eq__(self, o):
        return isinstance(o, Vec) and canon(self) == canon(o)

    def __hash__(self):
        return hash(ckey(canon(self)))


class NDict:
    """Association list keyed by the model's key equality (numeric value across levels)."""
    __slots__ = ("items", "default", "has_default")

    def __init__(self, items=(), default=None, has_default=False):
        self.items = []
        for k, v in items:
            self.set(k, v)
        self.default = default
        self.has_default = has_default

    def find(self, k):
        for i, (kk, _) in enumerate(self.items):
            if key_eq(kk, k):
                return i
        return -1

    def get(self, k):
        i = self.find(k)
        return self.items[i][1] if i >= 0 else None

    def has(self, k):
        return self.find(k) >= 0

    def set(self, k, v):
        i = self.find(k)
        if i >= 0:
            self.items[i] = (self.items[i][0], v)
        else:
            self.items.append((k, v))

    def remove(self, k):
        i = self.find(k)
        if i >= 0:
            return self.items.pop(i)[1]
        raise KeyError(k)

    def keys(self):
        return [k for k, _ in self.items]

    def __len__(self):
        return len(self.items)

    def __repr__(self):
        return "NDict(%r%s)" % (self.items, ", default=%r" % (self.default,) if self.has_default else "")


class Inst:
    __slots__ = ("name", "fields")

    def __init__(self, name, fields):
        self.name = name
        self.fields = list(fields)

    def __repr__(self):
        return "Inst(%s, %r)" % (self.name, self.fields)


class Opaque:
    """A value the model does not interpret (function, stream): compared by tag only."""
    __slots__ = ("tag",)

    def __init__(self, tag):
        self.tag = tag

    def __repr__(self):
        return "Opaque(%s)" % self.tag


# ---- numbers -----------------------------------------------------------------------------------

def fbits(x):
    return "%016x" % struct.unpack("<Q", struct.pack("<d", x))[0]


def bits_to_float(h):
    return struct.unpack("<d", struct.pack("<Q", int(h, 16)))[0]


def is_num(v):
    return isinstance(v, (int, Fraction, float, complex)) and not isinstance(v, bool)


def level(v):
    if isinstance(v, bool):
        raise TypeError("bool")
    if isinstance(v, int):
        return 0
    if isinstance(v, Fraction):
        return 1
    if isinstance(v, float):
        return 2
    if isinstance(v, complex):
        return 3
    raise TypeError(type(v))


LEVEL_NAMES = ["int", "rational", "float", "complex"]


def exact(v):
    """Exact rational value of a finite real model number."""
    if isinstance(v, (int, Fraction)):
        return Fraction(v)
    if isinstance(v, float):
        return Fraction(v)  # raises on inf/nan
    raise TypeError(v)


def real_eq(a, b):
    """Exact mathematical equality on real model numbers; NaN == NaN (dictionary-key convention
    is handled separately)."""
    fa = isinstance(a, float)
    fb = isinstance(b, float)
    if fa and math.isnan(a):
        return False
    if fb and math.isnan(b):
        return False
    if fa and math.isinf(a):
        return fb and a == b
    if fb and math.isinf(b):
        return False
    return exact(a) == exact(b)


def real_cmp(a, b):
    """-1/0/1 by exact value, None if NaN is involved."""
    fa = isinstance(a, float)
    fb = isinstance(b, float)
    if (fa and math.isnan(a)) or (fb and math.isnan(b)):
        return None
    if fa and math.isinf(a):
        if fb and a == b:
            return 0
        return 1 if a > 0 else -1
    if fb and math.isinf(b):
        return -1 if b > 0 else 1
    x, y = exact(a), exact(b)
    return (x > y) - (x < y)


def num_key_eq(a, b):
    """Equality used for dictionary keys: == with NaN equal to itself; complex by parts."""
    if isinstance(a, complex) or isinstance(b, complex):
        ca = a if isinstance(a, complex) else None
        cb = b if isinstance(b, complex) else None
        are, aim = (ca.real, ca.imag) if ca is not None else (a, 0)
        bre, bim = (cb.real, cb.imag) if cb is not None else (b, 0)
        return num_key_eq(are, bre) and num_key_eq(aim, bim)
    if isinstance(a, float) and math.isnan(a):
        return isinstance(b, float) and math.isnan(b)
    if isinstance(b, float) and math.isnan(b):
        return False
    return real_eq(a, b)


def key_eq(a, b):
    if is_num(a) and is_num(b):
        return num_key_eq(a, b)
    if is_num(a) or is_num(b):
        return False
    if a is None or b is None:
        return a is None and b is None
    if isinstance(a, str) or isinstance(b, str):
        return isinstance(a, str) and isinstance(b, str) and a == b
    if isinstance(a, bytes) or isinstance(b, bytes):
        return isinstance(a, bytes) and isinstance(b, bytes) and a == b
    if isinstance(a, list) or isinstance(b, list):
        return (isinstance(a, list) and isinstance(b, list) and len(a) == len(b)
                and all(key_eq(x, y) for x, y in zip(a, b)))
    if isinstance(a, Vec) or isinstance(b, Vec):
        return (isinstance(a, Vec) and isinstance(b, Vec) and len(a.xs) == len(b.xs)
                and all(key_eq(x, y) for x, y in zip(a.xs, b.xs)))
    if isinstance(a, NDict) or isinstance(b, NDict):
        if not (isinstance(a, NDict) and isinstance(b, NDict)) or len(a) != len(b):
            return False
        for k, v in a.items:
            i = b.find(k)
            if i < 0 or not key_eq(v, b.items[i][1]):
                return False
        return True
    return False


# ---- canonical JSON ------------------------------------------------------------------------------

def canon_num(v):
    if isinstance(v, bool):
        raise TypeError("bool in model")
    if isinstance(v, int):
        return {"i": str(v)}
    if isinstance(v, Fraction):
        return {"q": [str(v.numerator), str(v.denominator)]}
    if isinstance(v, float):
        return {"f": fbits(v)}
    if isinstance(v, complex):
        return {"c": [fbits(v.real), fbits(v.imag)]}
    raise TypeError(v)


def ckey(c):
    return json.dumps(c, sort_keys=True, separators=(",", ":"), ensure_ascii=True)


def canon(v):
    if v is None:
        return None
    if is_num(v):
        return canon_num(v)
    if isinstance(v, str):
        return {"s": v}
    if isinstance(v, (bytes, bytearray)):
        return {"b": bytes(v).hex()}
    if isinstance(v, (list, tuple)):
        return {"l": [canon(x) for x in v]}
    if isinstance(v, Vec):
        return {"v": [canon_num(x) for x in v.xs]}
    if isinstance(v, NDict):
        ents = [[canon(k), canon(x)] for k, x in v.items]
        ents.sort(key=lambda e: ckey(e[0]))
        d = {"d": ents}
        if v.has_default:
            d["def"] = canon(v.default)
        return d
    if isinstance(v, Inst):
        return {"inst": v.name, "fields": [canon(x) for x in v.fields]}
    if isinstance(v, Opaque):
        return {"opaque": v.tag}
    raise TypeError("no canon for %r" % (v,))


def norm(c, nan_canonical=True):
    """Normalise canonical JSON received from nlrun: drop representation side-information
    (big, sid), re-sort dict entries with this module's key order, collapse functions and streams
    to opaque tags, and (optionally) collapse all NaN bit patterns into one."""
    if c is None:
        return None
    if isinstance(c, dict):
        if "i" in c:
            return {"i": c["i"]}
        if "q" in c:
            return {"q": c["q"]}
        if "f" in c:
            return {"f": _nan(c["f"]) if nan_canonical else c["f"]}
        if "c" in c:
            return {"c": [_nan(x) if nan_canonical else x for x in c["c"]]}
        if "s" in c:
            return {"s": c["s"]}
        if "b" in c:
            return {"b": c["b"]}
        if "l" in c:
            return {"l": [norm(x, nan_canonical) for x in c["l"]]}
        if "v" in c:
            return {"v": [norm(x, nan_canonical) for x in c["v"]]}
        if "d" in c:
            ents = [[norm(k, nan_canonical), norm(v, nan_canonical)] for k, v in c["d"]]
            ents.sort(key=lambda e: ckey(e[0]))
            d = {"d": ents}
            if "def" in c:
                d["def"] = norm(c["def"], nan_canonical)
            return d
        if "inst" in c:
            return {"inst": c["inst"], "fields": [norm(x, nan_canonical) for x in c["fields"]]}
        if "fn" in c:
            return {"opaque": "fn"}
        if "stream" in c:
            return {"opaque": "stream"}
        if "opaque" in c:
            return c
    raise TypeError("bad canon %r" % (c,))


_NAN = "7ff8000000000000"


def _nan(h):
    x = int(h, 16)
    if (x & 0x7ff0000000000000) == 0x7ff0000000000000 and (x & 0x000fffffffffffff) != 0:
        return _NAN
    return h


def mcanon(v):
    """canon of a model value, normalised the same way as norm() does."""
    return norm(canon(v))


def from_canon(c):
    """Canonical JSON -> model value (functions/streams become Opaque)."""
    if c is None:
        return None
    if "i" in c:
        return int(c["i"])
    if "q" in c:
        return Fraction(int(c["q"][0]), int(c["q"][1]))
    if "f" in c:
        return bits_to_float(c["f"])
    if "c" in c:
        return complex(bits_to_float(c["c"][0]), bits_to_float(c["c"][1]))
    if "s" in c:
        return c["s"]
    if "b" in c:
        return bytes.fromhex(c["b"])
    if "l" in c:
        return [from_canon(x) for x in c["l"]]
    if "v" in c:
        return Vec([from_canon(x) for x in c["v"]])
    if "d" in c:
        d = NDict()
        d.items = [(from_canon(k), from_canon(v)) for k, v in c["d"]]
        if "def" in c:
            d.has_default = True
            d.default = from_canon(c["def"])
        return d
    if "inst" in c:
        return Inst(c["inst"], [from_canon(x) for x in c["fields"]])
    if "fn" in c:
        return Opaque("fn")
    if "stream" in c:
        return Opaque("stream")
    if "opaque" in c:
        return Opaque(c["opaque"])
    raise TypeError(c)


# ---- rendering to Noulith source ---------------------------------------------------------------------

def render_int(n):
    if n >= 0:
        return str(n)
    return "(0-%d)" % (-n)


def render_float(x):
    if math.isnan(x):
        return "(0.0/0.0)"
    if math.isinf(x):
        return "(1.0/0.0)" if x > 0 else "(0.0-1.0/0.0)"
    neg = math.copysign(1.0, x) < 0
    r = repr(abs(x))
    if "e" in r:
        m, e = r.split("e")
        e = e.lstrip("+")
        if e.startswith("-"):
            e = "-" + e[1:].lstrip("0")
        else:
            e = e.lstrip("0") or "0"
        r = m + "e" + e
    elif "." not in r:
        r = r + ".0"
    if neg:
        return "(-(%s))" % r  # preserves -0.0 (0.0 - 0.0 would give +0.0)
    return r


def render_str(s):
    out = ['"']
    for ch in s:
        o = ord(ch)
        if ch == "\\":
            out.append("\\\\")
        elif ch == '"':
            out.append('\\"')
        elif ch == "\n":
            out.append("\\n")
        elif ch == "\r":
            out.append("\\r")
        elif ch == "\t":
            out.append("\\t")
        elif ch == "\0":
            out.append("\\0")
        elif o < 0x20 or o == 0x7f:
            out.append("\\x%02x" % o)
        else:
            out.append(ch)
    out.append('"')
    return "".join(out)


def render(v):
    """Noulith source text that evaluates to exactly v (same level, same kind)."""
    if v is None:
        return "null"
    if isinstance(v, bool):
        raise TypeError("bool")
    if isinstance(v, int):
        return render_int(v)
    if isinstance(v, Fraction):
        if v.denominator == 1:
            return "(%s/1)" % render_int(v.numerator)
        return "(%s/%d)" % (render_int(v.numerator), v.denominator)
    if isinstance(v, float):
        return render_float(v)
    if isinstance(v, complex):
        return "complex(%s, %s)" % (render_float(v.real), render_float(v.imag))
    if isinstance(v, str):
        return render_str(v)
    if isinstance(v, (bytes, bytearray)):
        return "B[%s]" % ",".join(str(b) for b in v)
    if isinstance(v, (list, tuple)):
        return "[%s]" % ", ".join(render(x) for x in v)
    if isinstance(v, Vec):
        return "V(%s)" % ", ".join(render(x) for x in v.xs)
    if isinstance(v, NDict):
        parts = []
        if v.has_default:
            parts.append(":%s" % render(v.default))
        for k, x in v.items:
            parts.append("%s: %s" % (render(k), render(x)))
        return "{%s}" % ", ".join(parts)
    if isinstance(v, Inst):
        return "%s(%s)" % (v.name, ", ".join(render(x) for x in v.fields))
    raise TypeError("cannot render %r" % (v,))


def kind(v):
    if v is None:
        return "null"
    if isinstance(v, int):
        return "int"
    if isinstance(v, Fraction):
        return "rational"
    if isinstance(v, float):
        return "float"
    if isinstance(v, complex):
        return "complex"
    if isinstance(v, str):
        return "str"
    if isinstance(v, (bytes, bytearray)):
        return "bytes"
    if isinstance(v, (list, tuple)):
        return "list"
    if isinstance(v, Vec):
        return "vector"
    if isinstance(v, NDict):
        return "dict"
    if isinstance(v, Inst):
        return "inst"
    return "opaque"
