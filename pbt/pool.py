"""Shared argument pool and builtin lists for the sweeps (C04, C14, C01 call sweep)."""

# effectful / nondeterministic / environment-touching builtins: outside "the pure part of the language"
DENY = set("""print echo write debug input read read_bytes interact interact_lines flush read_file read_file? read_file_bytes
read_file_bytes? write_file append_file list_files run_process sleep time now random random_bytes random_range shuffle choose
eval vars assert read_compressed path_join path_parent request request_bytes request_json import memoize
par_each par_map""".split())

# (name, source, kind, tags). tags: "big" = integer magnitude >= 2^20 (excluded for size-like parameters)
POOL = [
    ("zero", "0", "int", ""), ("one", "1", "int", ""), ("neg1", "(0-1)", "int", ""), ("two", "2", "int", ""), ("seven", "7", "int", ""),
    ("i63", "(2^63-1)", "int", "big"), ("ni63", "(0-2^63)", "int", "big"), ("ni63s", "int(\"-9223372036854775808\")", "int", "big"), ("i63s", "int(\"9223372036854775807\")", "int", "big"), ("i64", "2^64", "int", "big"), ("m20", "2^20", "int", "big"),
    # machine-word operands whose product / sum leaves the machine word: 2^32-1 and ceil(sqrt(2^63))
    ("i32m", "4294967295", "int", "big"), ("isq63", "3037000500", "int", "big"),
    ("bigone", "(%d - %d)" % (2 ** 70 + 1, 2 ** 70), "int", ""), ("bigzero", "(2^64 - 2^64)", "int", ""),
    ("half", "(1/2)", "rational", ""), ("nrat", "(0-3/2)", "rational", ""), ("rint", "(4/2)", "rational", ""),
    ("fzero", "0.0", "float", ""), ("f15", "1.5", "float", ""), ("fneg", "(0.0-2.5)", "float", ""), ("inf", "(1.0/0.0)", "float", "big"),
    ("nan", "(0.0/0.0)", "float", ""), ("f1e30", "1e30", "float", "big"),
    ("cplx", "(1+2i)", "complex", ""),
    ("sempty", '""', "str", ""), ("sa", '"a"', "str", ""), ("su", '"héllo"', "str", ""), ("snum", '"12"', "str", ""), ("sws", '" a b\\n"', "str", ""),
    ("lempty", "[]", "list", ""), ("l123", "[1, 2, 3]", "list", ""), ("lnest", "[[1, 2], [3, 4]]", "list", ""), ("lstr", '["a", "b"]', "list", ""),
    ("lzero", "[0]", "list", ""), ("lmixed", '[1, "a", null]', "list", ""), ("lpair", "[[1, 2]]", "list", ""),
    ("dempty", "{}", "dict", ""), ("dsa", '{"a": 1}', "dict", ""), ("ddef", "{:0, 1: 2}", "dict", ""), ("dset", "{1, 2}", "dict", ""),
    ("dfn", "{1: len}", "dict", ""),     # hashable keys, unhashable value: not usable as a key itself
    ("vempty", "V()", "vector", ""), ("v12", "V(1, 2)", "vector", ""), ("vf", "V(1.5, 0)", "vector", ""),
    ("bempty", 'B""', "bytes", ""), ("bff", "B[255, 1]", "bytes", ""), ("butf", "B[104, 105]", "bytes", ""),
    ("rng", "(1 to 3)", "stream", ""), ("rempty", "(1 to 0)", "stream", ""), ("wrapped", "stream([1, 2])", "stream", ""),
    ("null", "null", "null", ""),
    ("fid", "id", "func", ""), ("finc", "(+1)", "func", ""), ("f2", "(\\a, b -> a)", "func", ""), ("fthrow", '(\\a -> throw "boom")', "func", ""),
    ("tint", "int", "type", ""), ("tstr", "str", "type", ""),
]

# reduced pool for quick tiers: one or two representatives per kind plus the classic faults
QUICK = ["zero", "one", "neg1", "two", "fzero", "rint", "i63", "ni63", "ni63s", "i64", "i32m", "isq63", "bigzero", "dfn", "half", "f15", "nan", "inf", "cplx", "sempty", "sa", "su", "lempty", "l123", "lnest", "lmixed",
         "dempty", "ddef", "vempty", "v12", "bempty", "bff", "rng", "rempty", "null", "finc", "fthrow", "tint"]

# builtins for which a huge integer argument requests a huge amount of memory/time (resource, not semantics)
SIZELIKE = set(""".* *. ** × ^^ $* *$ ^ << >> window combinations is_prime factorize random_bytes b_spline rearrange""".split())


def pool_decls():
    return ["p_%s := %s" % (n, s) for n, s, _, _ in POOL]


def by_name():
    return {n: (s, k, t) for n, s, k, t in POOL}
