"""C02 - mutating an unshared collection is in place (metamorphic allocation scaling).

A(n) = bytes requested from the global allocator while the mutation loop runs (setup evaluated
first, then the loop under the counting allocator of nlrun). In-place mutation gives A(4n)/A(n) -> 4;
one hidden copy per operation gives -> 16. Asserted: A(4n) <= 7 * A(n) + c. With an extra holder
(`y := x` before the loop): additionally A_alias(n) - A_plain(n) <= 3 * setup(n) (at most one copy
per additional holder). Byte counts are deterministic, so the oracle cannot flake.
"""
from hypothesis import strategies as st

from .core import Fail, GeneratorBug

PID = "C02"
LEVEL = "exploration"
RULE = ("enumerated workloads (mutation form x collection kind x plain/typed/aliased) plus Hypothesis-generated interleavings "
        "of 2-3 forms in one loop; each measured at n and 4n; non-trivial = the loop completed without error and its probe "
        "value matches the expected one (a 'fast because it failed' run does not count); distinct by loop source")
ASSUMPTIONS = [
    "asymptotics are inferred from two sizes (n, 4n) with threshold 7 between the linear (4) and quadratic (16) signatures",
    "$= (string concatenation) / x = x{..} / every .. f= are outside the property's list and are measured, not asserted; "
    "one-character string slot assignment is asserted (observed in place: the bytes are taken out of the variable and put back)",
    "operator-assignment through a user closure that mutates its own parameter is asserted (the argument is moved, observed in place)",
]

# each statement: (name, setup statements (N substituted), loop body, probe expr, expected value as python lambda n -> int)
STMTS = {
    "list_set": (["x := 0 .* N"], "x[i] = i", "x[N-1]", lambda n: n - 1),
    "list_set_neg": (["xn := 0 .* N"], "xn[0-1-i] = i", "xn[0]", lambda n: n - 1),
    "list_opassign": (["xo := 1 .* N"], "xo[i] += i", "xo[N-1]", lambda n: n),
    "list_max": (["xm := 1 .* N"], "xm[i] max= 5", "xm[0]", lambda n: 5),
    "list_append": (["e := []"], "e append= i", "len(e)", lambda n: n),
    "list_append_typed": (["et: list = []"], "et append= i", "len(et)", lambda n: n),
    "list_concat": (["e2 := []"], "e2 ++= [i]", "len(e2)", lambda n: n),
    "list_concat_typed": (["e2t: list = [1]"], "e2t ++= [i]", "len(e2t)", lambda n: n + 1),
    "list_snoc": (["e3 := []"], "e3 +.= i", "len(e3)", lambda n: n),
    "rows_set": (["rows := (0 .* 4) .* N"], "rows[i][2] = i", "rows[N-1][2]", lambda n: n - 1),
    "rows_append": (["rw := [[], [], [], []]"], "rw[i % 4] append= i", "len(rw[0])", lambda n: (n + 3) // 4),
    "pop": (["p := 0 .* N"], "pop p", "len(p)", lambda n: 0),
    "remove_last": (["q := 0 .* N"], "remove q[0-1]", "len(q)", lambda n: 0),
    "dict_addkey": (["dk := {}"], "dk |.= i", "len(dk)", lambda n: n),
    "dict_addkey_typed": (["dkt: dict = {}"], "dkt |.= i", "len(dkt)", lambda n: n),
    "dict_set": (["ds := {}"], "ds[i] = i", "len(ds)", lambda n: n),
    "dict_default_add": (["dd := {:0}"], "dd[i % 50] += 1", "dd[0]", lambda n: (n + 49) // 50),
    "dict_default_append": (["da := {:[]}"], "da[i % 8] append= i", "len(da[0])", lambda n: (n + 7) // 8),
    "dict_union": (["du := {}"], "du ||= {i: 1}", "len(du)", lambda n: n),
    "vector_set": (["v := vector(0 .* N)"], "v[i] = i", "v[N-1]", lambda n: n - 1),
    "vector_opassign": (["vo := vector(1 .* N)"], "vo[i] += 1", "vo[0]", lambda n: 2),
    "vector_set_typed": (["vt: vector = vector(0 .* N)"], "vt[i] = i", "vt[N-1]", lambda n: n - 1),
    "bytes_set": (["b := bytes(0 .* N)"], "b[i] = 7", "b[N-1]", lambda n: 7),
    "struct_field_append": (["struct Box (bitems, btag)", "bx := Box([], 0)"], "bx[bitems] append= i", "len(bx[bitems])", lambda n: n),
    "struct_field_set": (["struct Box2 (bitems2, btag2)", "bx2 := Box2(0 .* N, 0)"], "bx2[bitems2][i] = i", "bx2[bitems2][N-1]", lambda n: n - 1),
    "dict_then_list_set": (["dl := {\"k\": 0 .* N}"], "dl[\"k\"][i] = i", "dl[\"k\"][N-1]", lambda n: n - 1),
    "dict_then_list_opassign": (["dl2 := {\"k\": 1 .* N}"], "dl2[\"k\"][i] += 1", "dl2[\"k\"][0]", lambda n: 2),
    "dict_then_list_append": (["dl3 := {\"k\": []}"], "dl3[\"k\"] append= i", "len(dl3[\"k\"])", lambda n: n),
    "dict_then_dict_set": (["d2 := {\"k\": {}}"], "d2[\"k\"][i] = i", "len(d2[\"k\"])", lambda n: n),
    "list_then_dict_set": (["ld := [{}]"], "ld[0][i] = i", "len(ld[0])", lambda n: n),
    "list_then_list_append": (["ll := [[], 0]"], "ll[0] append= i", "len(ll[0])", lambda n: n),
    "swap_elems": (["sw := 0 .* N"], "swap sw[i], sw[N-1-i]", "len(sw)", lambda n: n),
    "insert_pair": (["ip := {}"], "ip |..= [i, i]", "len(ip)", lambda n: n),
    "discard": (["dc := set(0 til N)"], "dc -.= i", "len(dc)", lambda n: 0),
    # the variable is mutated from inside a closure that captured it (the closure's environment is the only other referent
    # of the variable, not of the value)
    "closure_append": (["cg := []", "cgf := \\v -> (cg append= v)"], "cgf(i)", "len(cg)", lambda n: n),
    "closure_set": (["cs := 0 .* N", "csf := \\j -> (cs[j] = j)"], "csf(i)", "cs[N-1]", lambda n: n - 1),
    "closure_dict_set": (["cd := {}", "cdf := \\j -> (cd[j] = j)"], "cdf(i)", "len(cd)", lambda n: n),
    "rows_opassign": (["ro := (1 .* 4) .* N"], "ro[i][1] += i", "ro[N-1][1]", lambda n: n),
    "dict_of_dict_opassign": (["dod := {\"k\": {:0}}"], "dod[\"k\"][i % 7] += 1", "dod[\"k\"][0]", lambda n: (n + 6) // 7),
    # a stack hovering at exactly half of its buffer's capacity (popped down from 2N), and at one above a power of two
    "stack_at_half_capacity": (["ph := 0 .* (2*N)", "for (j <- 0 til N) (pop ph)"], "ph append= i; pop ph", "len(ph)", lambda n: n),
    "stack_pow2_plus_one": (["pw := []", "for (j <- 0 til P2) (pw append= j)"], "pop pw; pw append= i", "len(pw)", lambda n: 2 ** (n.bit_length() - 1) + 1),
    # op-assignment through an `and` lvalue updates both targets, each in place
    "and_lvalue_append": (["la := []", "lb := [0]"], "(la and lb) append= i", "len(la) + len(lb)", lambda n: 2 * n + 1),
    # a loop whose condition IS the collection (work-queue idiom): the condition's value must not stay alive during the body
    "while_cond_is_collection": (["wq := 0 .* (N + 1)"], "(while (wq) (pop wq; break))", "len(wq)", lambda n: 1),
    # ++= whose right operand is still held elsewhere (a variable, a literal's buffer): only the left side has to be unshared
    "list_concat_var": (["lv := []", "lw := [1, 2]"], "lv ++= lw", "len(lv)", lambda n: 2 * n),
    "bytes_concat_literal": (["bv := B\"\""], "bv ++= B\"ab\"", "len(bv)", lambda n: 2 * n),
    "rows_concat_var": (["rv := [[], 0]", "rcw := [1]"], "rv[0] ++= rcw", "len(rv[0])", lambda n: n),
    "vector_concat_var": (["vv := V()", "vw := V(1, 2)"], "vv ++= vw", "len(vv)", lambda n: 2 * n),
    # strings are collections too (Seq::String): one-character slot assignment on an unaliased string of 8n bytes
    "string_set": (["s8 := 'a' $* (8*N)"], "s8[i] = 'b'", "len(s8 filter (== 'b'))", lambda n: n),
    "string_nested_set": (["sn8 := ['a' $* (8*N)]"], "sn8[0][i] = 'b'", "len(sn8[0] filter (== 'b'))", lambda n: n),
    "string_opassign": (["so8 := 'a' $* (8*N)"], "so8[i] .= upper", "len(so8 filter (== 'A'))", lambda n: n),
    # operator-assignment whose operator is a user closure mutating its own parameter: the left-hand side is dropped before
    # the call and the argument is moved into the parameter, so the closure holds the only reference
    "user_fn_set": (["ux := 0 .* N"], "ux .= \\a -> (a[i] = 1; a)", "ux[N-1]", lambda n: 1),
    "user_op_append": (["upush := \\a, v -> (a append= v; a)", "ue := []"], "ue upush= i", "len(ue)", lambda n: n),
    "user_op_nested_append": (["upush2 := \\a, v -> (a append= v; a)", "ur := [[], 0]"], "ur[0] upush2= i", "len(ur[0])", lambda n: n),
    "user_op_set": (["usetat := \\a, v -> (a[v] = v; a)", "uy := 0 .* N"], "uy usetat= i", "uy[N-1]", lambda n: n - 1),
}
# y := x style extra holder before the loop: name -> alias statement
ALIASABLE = {"list_set": "x", "list_opassign": "xo", "list_append": "e", "rows_set": "rows", "dict_set": "ds", "vector_set": "v", "bytes_set": "b",
             "dict_then_list_set": "dl", "struct_field_set": "bx2", "pop": "p", "dict_addkey": "dk"}
# forms that are known-quadratic and outside the property's list: measured and reported, never asserted
INFO_ONLY = {
    "string_concat": (["sc := \"\""], "sc $= \"a\"", "len(sc)", lambda n: n),
    "functional_update": (["fu := 0 .* N"], "fu = fu{i = 1}", "fu[0]", lambda n: 1),
    "every_opassign": (["eo := 0 .* N"], "every eo[0:2] += i", "len(eo)", lambda n: n),
}


def _declared_names():
    """every workload declares its own variables: interleavings of several workloads share one session"""
    import re
    seen = {}
    for nm, (setup, _b, _p, _e) in list(STMTS.items()) + list(INFO_ONLY.items()):
        for st_ in setup:
            m = re.match(r"\s*(?:struct\s+(\w+)|(\w+)\s*(?::\s*\w+)?\s*:?=)", st_)
            v = m and (m.group(1) or m.group(2))
            if v:
                if seen.get(v, nm) != nm:
                    raise GeneratorBug("workloads %s and %s both declare %s" % (seen[v], nm, v))
                seen[v] = nm
    return seen


_declared_names()


def sub(s, n):
    # N = the size scale; P2 = one more than the largest power of two <= N (a list grown by appends to just past a doubling)
    return s.replace("P2", str(2 ** (n.bit_length() - 1) + 1)).replace("N", str(n))


def measure(nl, names, n, alias=None, table=STMTS):
    """-> (setup_bytes, loop_bytes, probes ok?, detail)"""
    setup, bodies, probes = [], [], []
    for nm in names:
        st_, body, probe, exp = table[nm]
        setup += [sub(s, n) for s in st_]
        bodies.append(sub(body, n))
        probes.append((sub(probe, n), exp(n)))
    if alias:
        setup.append("holder := %s" % alias)
    loop = "for (i <- 0 til %d) (%s)" % (n, "; ".join(bodies))
    steps = [{"src": s, "alloc": True} for s in setup] + [{"src": loop, "alloc": True}] + [{"src": p} for p, _ in probes]
    res = nl.run(steps, fuel=2 ** 62, timeout=300)
    ns = len(setup)
    for r, s in zip(res, steps):
        if r["status"] == "parse_error":
            raise GeneratorBug("does not parse: %s" % s["src"])
    if len(res) < len(steps) or any(r["status"] != "ok" for r in res[:ns + 1]):
        bad = [(s["src"], r.get("msg") or r["status"]) for s, r in zip(steps, res) if r["status"] != "ok"]
        return None, None, False, "workload failed: %s" % bad[:2]
    okp = True
    det = ""
    for (p, want), r in zip(probes, res[ns + 1:]):
        if r["status"] != "ok" or r["value"].get("i") != str(want):
            okp = False
            det = "probe %s = %s, expected %s" % (p, r.get("value", r["status"]), want)
    return sum(r["alloc_bytes"] for r in res[:ns]), res[ns]["alloc_bytes"], okp, det


def check_workload(nl, case, ctx=None):
    names, n, alias = case["names"], case["n"], case.get("alias")
    table = INFO_ONLY if case.get("info") else STMTS
    s1, a1, ok1, d1 = measure(nl, names, n, alias, table)
    s4, a4, ok4, d4 = measure(nl, names, 4 * n, alias, table)
    label = "+".join(names) + (":alias" if alias else "")
    if not (ok1 and ok4):
        raise GeneratorBug("workload %s does not run as modelled: %s %s" % (label, d1, d4))
    ratio = a4 / max(a1, 1)
    if ctx is not None:
        ctx.count("%s@%d" % (label, n), True, "info" if case.get("info") else ("alias" if alias else ("multi" if len(names) > 1 else "single")))
        ctx.sample({"workload": label, "n": n, "loop_bytes_n": a1, "loop_bytes_4n": a4, "ratio": round(ratio, 2)})
        ctx.stats.extra.setdefault("ratios", {})
        ctx.stats.extra["ratios"]["%s@%d" % (label, n)] = round(ratio, 2)
    if case.get("info"):
        return None
    fails = []
    if a4 > 7 * a1 + 65536:
        fails.append(Fail("C02:scaling:%s" % label, "loop `%s` allocates %d bytes at n=%d and %d bytes at n=%d (ratio %.1f; in-place mutation gives ~4, a copy per operation ~16)"
                          % ("; ".join(sub(STMTS[x][1], n) for x in names), a1, n, a4, 4 * n, ratio)))
    if alias:
        sp, ap, okp, _ = measure(nl, names, 4 * n, None, table)
        if okp and a4 - ap > 3 * max(s4, 1) + 65536:
            fails.append(Fail("C02:alias_copies:%s" % label, "with one extra holder the loop allocates %d bytes more than without (setup is %d bytes): more than one copy per holder"
                              % (a4 - ap, s4)))
    return fails


CHECKS = {"workload": check_workload}


def worker(ctx):
    jobs = []
    sizes = [400, 1600] if not ctx.thorough else [500, 2000, 6000]
    for nm in STMTS:
        for n in sizes[:1] if not ctx.thorough else sizes:
            jobs.append({"names": [nm], "n": n})
    for nm, var in ALIASABLE.items():
        jobs.append({"names": [nm], "n": sizes[0], "alias": var})
    for nm in INFO_ONLY:
        jobs.append({"names": [nm], "n": sizes[0], "info": True})
    if not ctx.thorough:
        for nm in ("list_append", "list_set", "dict_set", "dict_then_list_set", "list_append_typed"):
            jobs.append({"names": [nm], "n": sizes[1]})
    for k, job in enumerate(jobs):
        if k % ctx.nworkers == ctx.index:
            ctx.check("workload", job)
    names = sorted(STMTS)
    combo = st.lists(st.sampled_from(names), min_size=2, max_size=3, unique=True).map(lambda ns: {"names": ns, "n": 300})
    ctx.hyp(combo, lambda c: ctx.check("workload", c), ctx.share(ctx.scale(160, 3000)), label="c02")
