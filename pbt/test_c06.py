"""C06 - exact integer arithmetic at every magnitude and representation.

Oracle: Python int semantics per operator, written from the property statement. Operands are
produced several ways (literal, 2^k+d, difference of big values, int("..."), quotient) so that small
machine-word values also occur in big representation; the interpreter reports is_big() of each
operand so the evidence shows both representations were exercised.
"""
import math

from hypothesis import strategies as st

from .gens import wide_ints
from .core import Fail
from .values import norm, render_int

PID = "C06"
LEVEL = "exploration"
RULE = ("Hypothesis batches of 32 (op, a, b, production forms) cases; a case is non-trivial when an "
        "operand or the exact result has magnitude in [2^60, 2^66], or an operand is a machine-word "
        "value held in big representation (as reported by is_big), or a negative operand meets "
        "// %% % << >>; distinct by the Noulith source text")
ASSUMPTIONS = [
    "CPython int arithmetic is the reference",
    "zero divisors for % are not generated here (unwinding is C14's claim); // %% /! by zero must raise",
    "shift counts are 0..4096; negative counts and counts beyond usize are outside the statement",
    "is_prime/factorize only for |n| < 2^40 (trial division cost)",
    "exponents bounded so that results stay below 2^65536 bits",
]

BIN_ARITH = ["+", "-", "*", "//", "%", "%%", "/!", "gcd", "lcm", "&", "|", "~"]
BIN_CMP = ["==", "!=", "<", "<=", ">", ">=", "<=>", ">=<"]
UN = ["neg", "bnot", "abs", "signum", "even", "odd"]
FORMS = ["lit", "pow", "diff", "str", "quot"]
M_QUOT = 2 ** 64 + 13


def form_src(v, form):
    if form == "pow" and abs(v) >= 256:
        k = abs(v).bit_length()
        d = abs(v) - 2 ** k
        core = "(2^%d + %s)" % (k, render_int(d))
        return core if v > 0 else "(0 - %s)" % core
    if form == "diff":
        r = 2 ** (abs(v).bit_length() + 70) + 12345
        return "(%s - %s)" % (render_int(r + v), render_int(r))
    if form == "str":
        return 'int("%d")' % v
    if form == "quot":
        return "(%s // %d)" % (render_int(v * M_QUOT), M_QUOT)
    return render_int(v)


def is_prime_ref(n):
    if n < 2:
        return False
    if n % 2 == 0:
        return n == 2
    i = 3
    while i * i <= n:
        if n % i == 0:
            return False
        i += 2
    return True


def trunc_rem(a, b):
    r = abs(a) % abs(b)
    return -r if a < 0 else r


def ref(op, a, b):
    """-> ('ok', int) | ('err',) | ('skip', why) | ('pred', fn)"""
    if op == "+":
        return ("ok", a + b)
    if op == "-":
        return ("ok", a - b)
    if op == "*":
        return ("ok", a * b)
    if op == "//":
        return ("err",) if b == 0 else ("ok", a // b)
    if op == "%%":
        return ("err",) if b == 0 else ("ok", a % b)
    if op == "%":
        return ("err",) if b == 0 else ("ok", trunc_rem(a, b))
    if op == "/!":
        if b == 0 or a % b != 0:
            return ("err",)
        return ("ok", a // b)
    if op == "ident":
        return ("skip", "ident_zero") if b == 0 else ("ok", 1)
    if op == "gcd":
        return ("ok", math.gcd(a, b))
    if op == "lcm":
        return ("ok", abs(a * b) // math.gcd(a, b) if a and b else 0)
    if op == "&":
        return ("ok", a & b)
    if op == "|":
        return ("ok", a | b)
    if op == "~":
        return ("ok", a ^ b)
    if op == "^":
        if b < 0:
            return ("skip", "neg_exponent")
        if abs(a) > 1 and b * abs(a).bit_length() > 65536:
            return ("skip", "huge_power")
        return ("ok", a ** b)
    if op == "<<":
        if b < 0 or b > 4096:
            return ("skip", "shift_count")
        return ("ok", a << b)
    if op == ">>":
        if b < 0 or b > 2 ** 62:
            return ("skip", "shift_count")
        return ("ok", a >> b)
    if op == "==":
        return ("ok", int(a == b))
    if op == "!=":
        return ("ok", int(a != b))
    if op == "<":
        return ("ok", int(a < b))
    if op == "<=":
        return ("ok", int(a <= b))
    if op == ">":
        return ("ok", int(a > b))
    if op == ">=":
        return ("ok", int(a >= b))
    if op == "<=>":
        return ("ok", (a > b) - (a < b))
    if op == ">=<":
        return ("ok", (a < b) - (a > b))
    if op == "neg":
        return ("ok", -a)
    if op == "bnot":
        return ("ok", ~a)
    if op == "abs":
        return ("ok", abs(a))
    if op == "signum":
        return ("ok", (a > 0) - (a < 0))
    if op == "even":
        return ("ok", int(a % 2 == 0))
    if op == "odd":
        return ("ok", int(a % 2 == 1))
    if op == "is_prime":
        if abs(a) >= 2 ** 40:
            return ("skip", "prime_cost")
        return ("ok", int(is_prime_ref(a)))
    if op == "factorize":
        if abs(a) >= 2 ** 40 or a == 0:
            return ("skip", "factorize_domain")
        return ("pred", a)
    raise ValueError(op)


UN_SRC = {"neg": "-(a)", "bnot": "~(a)", "abs": "abs(a)", "signum": "signum(a)", "even": "even(a)",
          "odd": "odd(a)", "is_prime": "is_prime(a)", "factorize": "factorize(a)"}


def case_src(c):
    op = c["op"]
    A = form_src(c["a"], c["fa"])
    if op in UN_SRC:
        return "(\\a -> [is_big(a), 0, %s])(%s)" % (UN_SRC[op], A)
    B = form_src(c["b"], c["fb"])
    if op == "ident":
        body = "(a // b) * b + (a %% b) == a"
    else:
        body = "a %s b" % op
    return "(\\a, b -> [is_big(a), is_big(b), %s])(%s, %s)" % (body, A, B)


def check_factorization(n, val):
    """validity predicate: [[p, m]...] ascending primes, multiplicities >= 1, optional leading [-1,1]."""
    if not isinstance(val, dict) or "l" not in val:
        return "not a list"
    prod = 1
    prev = None
    for i, e in enumerate(val["l"]):
        try:
            p = int(e["l"][0]["i"])
            m = int(e["l"][1]["i"])
        except Exception:
            return "bad entry %r" % (e,)
        if p == -1:
            if i != 0 or m != 1:
                return "misplaced -1"
        else:
            if not is_prime_ref(p):
                return "factor %d is not prime" % p
            if prev is not None and p <= prev:
                return "not ascending"
            prev = p
        if m < 1:
            return "multiplicity %d" % m
        prod *= p ** m
    if prod != n:
        return "product %d != %d" % (prod, n)
    return None


def nontrivial(c, rv, bigflags):
    lo, hi = 2 ** 60, 2 ** 66
    vals = [c["a"]] + ([c["b"]] if "b" in c else [])
    if any(lo <= abs(v) <= hi for v in vals):
        return True
    if rv is not None and lo <= abs(rv) <= hi:
        return True
    for v, f in zip(vals, bigflags):
        if f and abs(v) < 2 ** 63:
            return True
    if c["op"] in ("//", "%%", "%", "<<", ">>", "/!", "ident") and any(v < 0 for v in vals):
        return True
    return False


def check_batch(nl, cases, ctx=None):
    srcs = [case_src(c) for c in cases]
    refs = [ref(c["op"], c["a"], c.get("b", 0)) for c in cases]
    todo = [i for i, r in enumerate(refs) if r[0] != "skip"]
    fails = []
    results = nl.run([srcs[i] for i in todo], fuel=2_000_000, stop_on_panic=False)
    for i, res in zip(todo, results):
        c, r, src = cases[i], refs[i], srcs[i]
        sig_base = "C06:%s" % c["op"]
        rv = None
        bigflags = (False, False)
        if res["status"] == "parse_error":
            from .core import GeneratorBug
            raise GeneratorBug("generated text does not parse: %s" % src)
        if r[0] == "err":
            if res["status"] != "err":
                fails.append(Fail(sig_base + ":should_raise", "%s: expected an error, got %s" % (src, res), {"src": src}, index=i))
        elif res["status"] != "ok":
            fails.append(Fail(sig_base + ":" + res["status"], "%s: expected a value, got %s" % (src, res), {"src": src}, index=i))
        else:
            out = res["value"]["l"]
            bigflags = (out[0].get("i") == "1", out[1].get("i") == "1")
            got = out[2]
            if r[0] == "ok":
                rv = r[1]
                if norm(got) != {"i": str(r[1])}:
                    mag = "big" if any(abs(v) >= 2 ** 63 for v in (c["a"], c.get("b", 0))) else "small"
                    fails.append(Fail("%s:wrong:%s" % (sig_base, mag),
                                      "%s: expected %d, got %s" % (src, r[1], got), {"src": src}, index=i))
            else:
                why = check_factorization(r[1], got)
                if why:
                    fails.append(Fail(sig_base + ":invalid", "%s: %s (got %s)" % (src, why, got), {"src": src}, index=i))
        if ctx is not None:
            nt = nontrivial(c, rv, bigflags)
            ctx.count(src, nt, "op:" + c["op"])
            for v, f in zip([c["a"], c.get("b")], bigflags):
                if v is not None:
                    if f and abs(v) < 2 ** 63:
                        ctx.cls("operand:small_value_big_repr")
                    elif f:
                        ctx.cls("operand:big")
                    else:
                        ctx.cls("operand:small")
            if nt:
                ctx.sample({"src": src, "expected": str(r[1]) if r[0] == "ok" else r[0]})
    if ctx is not None:
        for i, r in enumerate(refs):
            if r[0] == "skip":
                ctx.exclude(r[1])
    return fails


CHECKS = {"batch": check_batch}

# ---- generators ---------------------------------------------------------------------------------

BOUNDARY = [0, 1, 2, 2 ** 31, 2 ** 32, 2 ** 62, 2 ** 63, 2 ** 64]


def ints():
    boundary = st.builds(lambda b, d, s: s * (b + d), st.sampled_from(BOUNDARY), st.integers(-2, 2),
                         st.sampled_from([1, -1]))
    bits = st.one_of(st.integers(1, 16), st.integers(50, 70), st.integers(1, 200), st.integers(1, 4096))
    rnd = bits.flatmap(lambda k: st.integers(-(2 ** k), 2 ** k))
    # st.integers is concentrated on small magnitudes (gens.py): widths drawn uniformly as well
    return st.one_of(boundary, rnd, st.integers(-40, 40), wide_ints(20, 130), wide_ints(1, 4096))


forms = st.sampled_from(FORMS)


def cases():
    arith = st.fixed_dictionaries({"op": st.sampled_from(BIN_ARITH + ["ident"]), "a": ints(), "b": ints(),
                                   "fa": forms, "fb": forms})
    cmpc = st.fixed_dictionaries({"op": st.sampled_from(BIN_CMP), "a": ints(), "b": ints(), "fa": forms, "fb": forms})
    # comparisons of equal values in different representations
    cmpeq = st.builds(lambda op, a, fa, fb, d: {"op": op, "a": a, "b": a + d, "fa": fa, "fb": fb},
                      st.sampled_from(BIN_CMP), ints(), forms, forms, st.sampled_from([0, 0, 1, -1]))
    # divisions with exact multiples and near-multiples
    divc = st.builds(lambda op, q, b, d, fa, fb: {"op": op, "a": q * b + d, "b": b, "fa": fa, "fb": fb},
                     st.sampled_from(["//", "%%", "%", "/!", "ident"]), ints(), ints(), st.integers(-1, 1), forms, forms)
    shift = st.fixed_dictionaries({"op": st.sampled_from(["<<", ">>"]), "a": ints(),
                                   "b": st.one_of(st.integers(0, 200), st.sampled_from([62, 63, 64, 65, 127, 128, 1024, 4096])),
                                   "fa": forms, "fb": st.sampled_from(["lit", "diff", "str"])})
    power = st.fixed_dictionaries({"op": st.just("^"), "a": st.one_of(st.integers(-12, 12), ints()),
                                   "b": st.integers(0, 64), "fa": forms, "fb": st.sampled_from(["lit", "diff"])})
    # bases whose powers stay small, raised to exponents that do not fit 32 bits / a machine word
    power_big = st.fixed_dictionaries({"op": st.just("^"), "a": st.sampled_from([0, 1, -1]),
                                       "b": st.one_of(st.sampled_from([2 ** 31, 2 ** 32, 2 ** 32 + 1, 2 ** 33, 2 ** 62, 2 ** 63 - 1, 2 ** 63, 2 ** 64, 2 ** 64 + 1, 3 * 2 ** 32]),
                                                      wide_ints(30, 70, signed=False)),
                                       "fa": forms, "fb": st.sampled_from(["lit", "diff", "str"])})
    un = st.fixed_dictionaries({"op": st.sampled_from(UN), "a": ints(), "fa": forms})
    small = st.one_of(st.integers(-(2 ** 40) + 1, 2 ** 40 - 1), st.integers(-2000, 2000),
                      st.builds(lambda p, q: p * q, st.sampled_from([2, 3, 65537, 999983, 1048573]),
                                st.sampled_from([1, 2, 3, 65537, 999983, 1048573])))
    nt = st.fixed_dictionaries({"op": st.sampled_from(["is_prime", "factorize"]), "a": small, "fa": forms})
    return st.one_of(arith, arith, cmpc, cmpeq, divc, shift, power, power_big, un, nt)


def boundary_values():
    vals = set()
    for b in BOUNDARY:
        for d in (-2, -1, 0, 1, 2):
            for sgn in (1, -1):
                vals.add(sgn * (b + d))
    return sorted(vals)


def worker(ctx):
    # exhaustive boundary x boundary grid for the operators with machine-word fast paths, with operands
    # produced both as (big-representation) arithmetic and through int("...") (normalised representation)
    vals = boundary_values()
    grid_ops = BIN_ARITH + ["<=>", "<", "=="] if ctx.thorough else ["//", "%%", "/!", "*", "-", "gcd", "lcm", "%", "&"]
    jobs = [(a, op) for a in vals for op in grid_ops]
    for n, (a, op) in enumerate(jobs):
        if n % ctx.nworkers != ctx.index:
            continue
        batch = [{"op": op, "a": a, "b": b, "fa": fa, "fb": fb} for b in vals for fa, fb in (("str", "str"), ("lit", "str"), ("str", "diff"))]
        ctx.check("batch", batch)
    total = ctx.scale(4000, 95000)
    n = ctx.share(total)

    def body(batch):
        ctx.check("batch", batch)

    ctx.hyp(st.lists(cases(), min_size=32, max_size=32), body, n, label="c06")
