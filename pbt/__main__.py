import argparse
import os
import sys

from . import core


def main():
    ap = argparse.ArgumentParser()
    ap.add_argument("pid")
    ap.add_argument("--tier", default=os.environ.get("VERIF_TIER", "quick"), choices=["quick", "thorough"])
    ap.add_argument("--seed", type=int, default=int(os.environ.get("VERIF_SEED", "0") or 0))
    ap.add_argument("--replay")
    ap.add_argument("--workers", type=int)
    a = ap.parse_args()
    modname = "pbt.test_%s" % a.pid.lower()
    if a.replay:
        sys.exit(core.main_replay(modname, a.replay))
    sys.exit(core.main_run(modname, a.tier, a.seed, a.workers))


main()
