"""Client for the nlrun JSON-lines server: one child process, watchdog, restart."""
import json
import os
import select
import signal
import subprocess
import time

HERE = os.path.dirname(os.path.abspath(__file__))
WATCHDOG_SCALE = float(os.environ.get("VERIF_WATCHDOG_SCALE", "3"))
NLRUN = os.path.join(os.path.dirname(HERE), "harness", "target", "release", "nlrun")

UNLIMITED = 2**64 - 1


class Inconclusive(BaseException):
    """Infrastructure trouble (hang, OOM, abort): never a violation by itself."""

    def __init__(self, kind, detail="", request=None):
        super().__init__("%s: %s" % (kind, detail))
        self.kind = kind
        self.detail = detail
        self.request = request


class NL:
    def __init__(self, timeout=30.0, as_gib=10, stack_mib=2048):
        self.timeout = timeout
        self.env = dict(os.environ, NLRUN_AS_GIB=str(as_gib), NLRUN_STACK_MIB=str(stack_mib))
        self.p = None
        self.buf = b""
        self.restarts = 0
        self.start()

    def start(self):
        self.close()
        self.p = subprocess.Popen([NLRUN], stdin=subprocess.PIPE, stdout=subprocess.PIPE,
                                  stderr=subprocess.DEVNULL, env=self.env, bufsize=0)
        self.buf = b""

    def close(self):
        if self.p is not None:
            try:
                self.p.kill()
            except Exception:
                pass
            try:
                self.p.wait(timeout=5)
            except Exception:
                pass
            for f in (self.p.stdin, self.p.stdout):
                try:
                    f.close()
                except Exception:
                    pass
            self.p = None

    def request(self, req, timeout=None):
        if self.p is None or self.p.poll() is not None:
            self.start()
        # watchdog only (a hang is reported as inconclusive, never as a violation); scaled so that a heavily loaded
        # machine does not turn sub-second work into a spurious hang report
        timeout = (self.timeout if timeout is None else timeout) * WATCHDOG_SCALE
        data = (json.dumps(req) + "\n").encode()
        try:
            self.p.stdin.write(data)
            self.p.stdin.flush()
        except (BrokenPipeError, OSError):
            rc = self.p.poll()
            self.restarts += 1
            self.start()
            raise Inconclusive("crash", "child gone before request (rc=%s)" % rc, req)
        deadline = time.monotonic() + timeout
        fd = self.p.stdout.fileno()
        while True:
            nl = self.buf.find(b"\n")
            if nl >= 0:
                line = self.buf[:nl]
                self.buf = self.buf[nl + 1:]
                return json.loads(line)
            left = deadline - time.monotonic()
            if left <= 0:
                self.restarts += 1
                self.start()
                raise Inconclusive("hang", "no answer within %.0fs" % timeout, req)
            r, _, _ = select.select([fd], [], [], min(left, 1.0))
            if r:
                chunk = os.read(fd, 1 << 20)
                if not chunk:
                    rc = self.p.wait()
                    self.restarts += 1
                    self.start()
                    kind = "abort" if rc in (-signal.SIGABRT, -signal.SIGSEGV) else "crash"
                    raise Inconclusive(kind, "child exited rc=%s" % rc, req)
                self.buf += chunk

    # ---- convenience -------------------------------------------------------------------------
    def run(self, steps, fuel=1_000_000, sid=None, each_fresh=False, timeout=None, stop_on_panic=True, alloc_cap=None):
        """steps: list of str or dict(src=..., snap=[...], alloc=bool). Returns list of results."""
        st = [s if isinstance(s, dict) else {"src": s} for s in steps]
        req = {"op": "run", "steps": st, "fuel": fuel, "each_fresh": each_fresh, "stop_on_panic": stop_on_panic}
        if sid is not None:
            req["sid"] = sid
        if alloc_cap is not None:
            req["alloc_cap"] = alloc_cap    # growth guard: a larger single allocation ends the step as status "fuel"
        resp = self.request(req, timeout)
        if "error" in resp:
            raise Inconclusive("protocol", resp["error"], req)
        return resp["results"]

    def eval1(self, src, fuel=1_000_000, timeout=None):
        return self.run([src], fuel=fuel, timeout=timeout)[0]

    def evals(self, srcs, fuel=1_000_000, timeout=None):
        """Each source in its own fresh session."""
        return self.run(list(srcs), fuel=fuel, each_fresh=True, timeout=timeout)

    def open(self):
        return self.request({"op": "open"})["sid"]

    def close_session(self, sid):
        self.request({"op": "close", "sid": sid})

    def parse_many(self, srcs, timeout=None):
        return self.request({"op": "parse_many", "srcs": list(srcs)}, timeout)["results"]

    def globals(self):
        return self.request({"op": "globals"})["globals"]
