"""C16 - codecs round-trip and conversions are exact.

Round-trips stated in the property AND independent encodings (Python int/Fraction/binascii/base64/
gzip/json), so that a pair that is wrong in both directions is still caught.
"""
import base64
import binascii
import hashlib
import gzip
import json
import math
from fractions import Fraction

from hypothesis import strategies as st

from .gens import wide_ints
from .core import Fail, GeneratorBug
from .test_c06 import form_src
from .values import NDict, canon, from_canon, mcanon, norm, render, render_int, render_str

PID = "C16"
LEVEL = "exploration"
RULE = ("Hypothesis cases over integers/bases/decimal strings/byte strings/unicode text/JSON-shaped values; "
        "non-trivial = negative or >= 2^63 integer, base not in {2,10,16}, string with sign/exponent/fraction, "
        "non-ASCII text, bytes longer than one deflate block marker (>= 64), JSON nesting >= 2; distinct by case text")
ASSUMPTIONS = [
    "CPython int/Fraction/binascii/base64/gzip/json are the independent references",
    "str_radix(0, b) may be \"\" or \"0\" (only the round-trip is asserted there)",
    "JSON text is produced with raw printable characters, so the only string escapes are \\\" and \\\\",
    "JSON-shaped integers are within the signed 64-bit range and floats are finite",
]

DIGITS = "0123456789abcdefghijklmnopqrstuvwxyz"


def to_radix(n, b):
    if n == 0:
        return "0"
    s = []
    m = abs(n)
    while m:
        s.append(DIGITS[m % b])
        m //= b
    return ("-" if n < 0 else "") + "".join(reversed(s))


def expand(seed, n):
    """n incompressible bytes as a pure function of the generated seed (SHA-256 in counter mode)"""
    out = bytearray()
    k = 0
    while len(out) < n:
        out += hashlib.sha256(b"%d:%d" % (seed, k)).digest()
        k += 1
    return bytes(out[:n])


def S(v):
    return {"s": v}


def I(n):
    return {"i": str(n)}


# every sub-check: build(case) -> list of (label, src, expectation) where expectation is
#   ("eq", canon) | ("in", [canon...]) | ("err",) | ("py", fn(canon)->None|str)

def build(c):
    t = c["t"]
    out = []
    if t == "int":
        n = c["n"]
        A = form_src(n, c.get("f", "lit"))
        out.append(("str", "str(%s)" % A, ("eq", S(str(n)))))
        out.append(("int_str", "(\\n -> int(str(n)) == n)(%s)" % A, ("eq", I(1))))
        out.append(("number_str", "(\\n -> [number(str(n)) == n, number(str(n))])(%s)" % A, ("eq", {"l": [I(1), I(n)]})))
        out.append(("int_of_text", "int(%s)" % render_str(str(n)), ("eq", I(n))))
        out.append(("dollar", '("" $ %s)' % A, ("eq", S(str(n)))))
        out.append(("print", "print(%s)" % A, ("out", str(n) + "\n")))
        if -(2 ** 63) <= n < 2 ** 63:
            # JSON-shaped integer whatever its internal representation
            out.append(("json_encode_int", "json_encode([%s, {\"k\": %s}])" % (A, A), ("eq", S('[%d,{"k":%d}]' % (n, n)))))
            out.append(("json_rt_int", "(\\v -> json_decode(json_encode(v)) == v)([%s])" % A, ("eq", I(1))))
        out.append(("fmt", '(\\n -> [F"{n}", F"{n #d}", F"{n #x}", F"{n #X}", F"{n #b}", F"{n #o}"])(%s)' % A,
                    ("eq", {"l": [S(str(n)), S(str(n)), S(format(n, "x")), S(format(n, "X")), S(format(n, "b")), S(format(n, "o"))]})))
    elif t == "radix":
        n, b = c["n"], c["b"]
        A = form_src(n, c.get("f", "lit"))
        want = to_radix(n, b)
        alts = [S(want)] + ([S("")] if n == 0 else [])
        out.append(("str_radix", "str_radix(%s, %d)" % (A, b), ("in", alts)))
        if n >= 0:
            out.append(("radix_rt", "(\\n -> int_radix(str_radix(n, %d), %d) == n)(%s)" % (b, b, A), ("eq", I(1))))
            out.append(("int_radix", "int_radix(%s, %d)" % (render_str(want), b), ("eq", I(n))))
    elif t == "rat":
        out.append(("rational", "rational(%s)" % render_str(c["s"]), ("eq", mcanon(Fraction(c["p"], c["q"])))))
    elif t == "bytes":
        b = bytes.fromhex(c["hex"]) if "hex" in c else expand(c["gen"][0], c["gen"][1])
        hx = binascii.hexlify(b).decode()
        B = render(b) if len(b) < 4096 else "hex_decode(%s)" % render_str(hx)
        b64 = base64.b64encode(b).decode()
        out.append(("hex_encode", "hex_encode(%s)" % B, ("eq", S(hx))))
        out.append(("hex_decode", "hex_decode(%s)" % render_str(hx), ("eq", mcanon(b))))
        out.append(("hex_decode_upper", "hex_decode(%s)" % render_str(hx.upper()), ("eq", mcanon(b))))
        out.append(("hex_rt", "(\\b -> hex_decode(hex_encode(b)) == b)(%s)" % B, ("eq", I(1))))
        out.append(("base64_encode", "base64_encode(%s)" % B, ("eq", S(b64))))
        out.append(("base64_decode", "base64_decode(%s)" % render_str(b64), ("eq", mcanon(b))))
        out.append(("base64_rt", "(\\b -> base64_decode(base64_encode(b)) == b)(%s)" % B, ("eq", I(1))))
        out.append(("gzip_rt", "(\\b -> decompress(compress(b)) == b)(%s)" % B, ("eq", I(1))))
        gz = gzip.compress(b, mtime=0)
        gz_src = render(gz) if len(gz) < 4096 else "hex_decode(%s)" % render_str(gz.hex())    # a long B[..] literal is slow to parse
        out.append(("gunzip_python", "decompress(%s)" % gz_src, ("eq", mcanon(b))))

        def py_gunzip(got, b=b):
            try:
                data = gzip.decompress(bytes.fromhex(got["b"]))
            except Exception as e:  # noqa
                return "python cannot gunzip compress(b): %r" % (e,)
            return None if data == b else "python gunzip(compress(b)) != b"
        out.append(("gzip_python", "compress(%s)" % B, ("py", py_gunzip)))
    elif t == "text":
        s = c["s"]
        out.append(("utf8_encode", "utf8_encode(%s)" % render_str(s), ("eq", mcanon(s.encode("utf-8")))))
        out.append(("utf8_decode", "utf8_decode(%s)" % render(s.encode("utf-8")), ("eq", S(s))))
        out.append(("utf8_rt", "(\\s -> utf8_decode(utf8_encode(s)) == s)(%s)" % render_str(s), ("eq", I(1))))
    elif t == "chr":
        cp = c["cp"]
        if 0xD800 <= cp <= 0xDFFF or cp > 0x10FFFF or cp < 0:
            out.append(("chr_invalid", "chr(%s)" % render_int(cp), ("err",)))
        else:
            out.append(("chr", "chr(%d)" % cp, ("eq", S(chr(cp)))))
            out.append(("ord", "ord(%s)" % render_str(chr(cp)), ("eq", I(cp))))
            out.append(("chr_ord_rt", "(\\n -> ord(chr(n)) == n)(%d)" % cp, ("eq", I(1))))
    elif t == "json":
        v = json.loads(c["text"])
        text = c["text"]
        model = json_model(v)
        mc = mcanon(model)
        out.append(("json_decode", "json_decode(%s)" % render_str(text), ("eq", mc)))
        out.append(("literal", text, ("eq", mc)))
        out.append(("json_rt", "(\\v -> json_decode(json_encode(v)))(json_decode(%s))" % render_str(text), ("eq", mc)))
        out.append(("repr_eval", "(\\v -> eval(repr(v)))(json_decode(%s))" % render_str(text), ("eq", mc)))

        def py_json(got, v=v):
            try:
                back = json.loads(got["s"])
            except Exception as e:  # noqa
                return "python cannot parse json_encode output %r: %r" % (got.get("s"), e)
            return None if json_same(back, v) else "python json.loads(json_encode(v)) = %r != %r" % (back, v)
        out.append(("json_encode_python", "json_encode(json_decode(%s))" % render_str(text), ("py", py_json)))
    else:
        raise ValueError(t)
    return out


def json_model(v):
    if v is None:
        return None
    if isinstance(v, bool):
        return int(v)
    if isinstance(v, (int, float, str)):
        return v
    if isinstance(v, list):
        return [json_model(x) for x in v]
    if isinstance(v, dict):
        d = NDict()
        for k, x in v.items():
            d.items.append((k, json_model(x)))
        return d
    raise TypeError(v)


def json_same(a, b):
    if isinstance(a, bool) or isinstance(b, bool):
        a = int(a) if isinstance(a, bool) else a
        b = int(b) if isinstance(b, bool) else b
    if type(a) != type(b):
        return False
    if isinstance(a, float):
        return a == b and math.copysign(1, a) == math.copysign(1, b)
    if isinstance(a, list):
        return len(a) == len(b) and all(json_same(x, y) for x, y in zip(a, b))
    if isinstance(a, dict):
        return a.keys() == b.keys() and all(json_same(a[k], b[k]) for k in a)
    return a == b


def nontrivial(c):
    t = c["t"]
    if t == "int":
        return c["n"] < 0 or c["n"] >= 2 ** 63 or c.get("f", "lit") != "lit"
    if t == "radix":
        return c["b"] not in (2, 10, 16) or c["n"] < 0 or c["n"] >= 2 ** 63
    if t == "rat":
        return any(ch in c["s"] for ch in "-+eE./")
    if t == "bytes":
        return "gen" in c or len(c["hex"]) >= 128 or len(c["hex"]) == 0
    if t == "text":
        return any(ord(ch) > 127 for ch in c["s"])
    if t == "chr":
        return c["cp"] > 127
    if t == "json":
        return c.get("depth", 0) >= 2
    return False


def check_batch(nl, cases, ctx=None):
    items = []
    for i, c in enumerate(cases):
        for label, src, exp in build(c):
            items.append((i, label, src, exp))
    results = nl.run([it[2] for it in items], fuel=5_000_000, stop_on_panic=False, timeout=120)
    fails = []
    seen = set()
    for (i, label, src, exp), r in zip(items, results):
        c = cases[i]
        sig = "C16:%s:%s" % (c["t"], label)
        f = None
        if r["status"] == "parse_error" and label != "literal":
            raise GeneratorBug("does not parse: %s" % src)
        if exp[0] == "err":
            if r["status"] != "err":
                f = Fail(sig + ":should_raise", "%s: expected an error, got %s" % (src, r))
        elif r["status"] != "ok":
            f = Fail(sig + ":" + r["status"], "%s: expected a value, got %s" % (src[:2000], {k: v for k, v in r.items() if k != 'output'}))
        elif exp[0] == "out":
            if r["output"] != exp[1]:
                f = Fail(sig + ":wrong", "%s: printed %r, expected %r" % (src, r["output"], exp[1]))
        else:
            got = norm(r["value"], nan_canonical=False)
            if exp[0] == "eq" and got != exp[1]:
                f = Fail(sig + ":wrong", "%s: expected %s, got %s" % (src[:2000], json.dumps(exp[1])[:2000], json.dumps(got)[:2000]))
            elif exp[0] == "in" and got not in exp[1]:
                f = Fail(sig + ":wrong", "%s: expected one of %s, got %s" % (src, exp[1], got))
            elif exp[0] == "py":
                why = exp[1](got)
                if why:
                    f = Fail(sig + ":independent", "%s: %s" % (src[:2000], why))
        if ctx is not None:
            ctx.count(src if len(src) < 4000 else "sha256:" + hashlib.sha256(src.encode()).hexdigest(), nontrivial(c), "%s:%s" % (c["t"], label))
            if i not in seen and nontrivial(c):
                seen.add(i)
                ctx.sample({k: (v if not isinstance(v, str) or len(v) < 200 else v[:200] + "...") for k, v in c.items()})
        if f is not None:
            f.index = i
            fails.append(f)
    return fails


CHECKS = {"batch": check_batch}

# ---- generators -------------------------------------------------------------------------------------


def s_ints():
    b = st.builds(lambda b, d, s: s * (b + d), st.sampled_from([0, 1, 2 ** 31, 2 ** 63, 2 ** 64]), st.integers(-2, 2),
                  st.sampled_from([1, -1]))
    big = st.one_of(st.integers(1, 70), st.integers(1, 2000)).flatmap(lambda k: st.integers(-(2 ** k), 2 ** k))
    return st.one_of(b, b, big, st.integers(-300, 300), wide_ints(1, 140), wide_ints(1, 2000), wide_ints(62, 66))


def s_ratcase():
    digits = st.text(alphabet="0123456789", min_size=1, max_size=12)
    frac = st.text(alphabet="0123456789", min_size=0, max_size=12)
    sign = st.sampled_from(["", "", "-", "+"])
    exp = st.one_of(st.none(), st.integers(-400, 400))
    esign = st.sampled_from(["", "+"])
    ech = st.sampled_from(["e", "E"])

    def dec(sg, ip, fp, dot, e, es, ec):
        # dot: 0 = no dot (integer), 1 = ip.fp, 2 = .fp (needs fp), 3 = ip.
        if dot == 0:
            body, val = ip, Fraction(int(ip))
        elif dot == 1:
            body, val = ip + "." + fp, Fraction(int(ip + fp or "0"), 10 ** len(fp))
        elif dot == 2:
            fp2 = fp or "5"
            body, val = "." + fp2, Fraction(int(fp2), 10 ** len(fp2))
        else:
            body, val = ip + ".", Fraction(int(ip))
        if e is not None:
            body += ec + (("-%d" % -e) if e < 0 else (es + str(e)))
            val *= Fraction(10) ** e
        if sg == "-":
            val = -val
        return (sg + body, val)

    decs = st.builds(dec, sign, digits, frac, st.integers(0, 3), exp, esign, ech)

    def mk(a, b, slash):
        if slash and b[1] != 0:
            v = a[1] / b[1]
            return {"t": "rat", "s": a[0] + "/" + b[0], "p": v.numerator, "q": v.denominator}
        return {"t": "rat", "s": a[0], "p": a[1].numerator, "q": a[1].denominator}
    return st.builds(mk, decs, decs, st.booleans())


def s_jsonval(depth):
    leaf = st.one_of(st.none(), st.integers(-(2 ** 63), 2 ** 63 - 1), st.integers(-5, 5), wide_ints(20, 63).filter(lambda n: -(2 ** 63) <= n < 2 ** 63),
                     st.floats(allow_nan=False, allow_infinity=False), st.sampled_from([0.0, -0.0, 1e22, 1e-7, 5e-324, 1.5, 1e300]),
                     st.text(alphabet=st.characters(blacklist_categories=("Cc", "Cs", "Cf", "Co", "Cn", "Zl", "Zp")), max_size=8),
                     st.booleans())
    if depth == 0:
        return leaf
    sub = s_jsonval(depth - 1)
    keys = st.text(alphabet=st.characters(blacklist_categories=("Cc", "Cs", "Cf", "Co", "Cn", "Zl", "Zp")), max_size=5)
    return st.one_of(leaf, st.lists(sub, max_size=4), st.dictionaries(keys, sub, max_size=4))


def jdepth(v):
    if isinstance(v, list):
        return 1 + max([jdepth(x) for x in v], default=0)
    if isinstance(v, dict):
        return 1 + max([jdepth(x) for x in v.values()], default=0)
    return 0


def s_cases(thorough):
    forms = st.sampled_from(["lit", "lit", "pow", "diff", "quot", "str"])
    ints = st.builds(lambda n, f: {"t": "int", "n": n, "f": f}, s_ints(), forms)
    # values whose digit string just fills a machine word in a power-of-two base get their own weight
    radix = st.builds(lambda n, b, f: {"t": "radix", "n": n, "b": b, "f": f}, st.one_of(s_ints(), wide_ints(63, 65), wide_ints(31, 33)),
                      st.one_of(st.integers(2, 36), st.sampled_from([2, 4, 8, 16, 32, 10, 36])), forms)
    maxb = 1 << 20 if thorough else 1 << 13
    byts = st.one_of(st.binary(max_size=64), st.binary(max_size=600),
                     st.builds(lambda chunk, k: (chunk * k)[:maxb], st.binary(min_size=1, max_size=40), st.integers(1, maxb // 8))
                     ).map(lambda b: {"t": "bytes", "hex": b.hex()})
    # incompressible data whose gzip form is longer than the decoder's internal buffers (tens of KiB and more)
    bigb = st.builds(lambda seed, n: {"t": "bytes", "gen": [seed, n]}, st.integers(0, 2 ** 32), st.sampled_from([20000, 33000, 40000, 66000, 100000, 140000] if not thorough else
                                                                                                 [20000, 33000, 40000, 66000, 100000, 140000, 300000]))
    byts = st.one_of(*([byts] * (4 if not thorough else 24)), bigb)      # the big inputs dominate the cost: same absolute number in both tiers
    # characters that text-handling code likes to treat specially, at the start, inside and at the end of a string
    special = st.sampled_from(["\ufeff", "\ufffe", "\u0000", "\ufffd", "\u200b", "\u2028", "\u0085", "\r\n", "\ue000", "\ud7ff", "\U0010ffff", "\u0301", "\u202e", "\x7f", "\x80"])
    plain = st.text(alphabet=st.characters(blacklist_categories=("Cs",)), max_size=20)
    text = st.one_of(plain, plain, st.builds(lambda a, sp, b, c: a + sp + b + c, st.sampled_from(["", "", "a"]), special, st.text(alphabet="abé ", max_size=4), st.one_of(st.just(""), special))
                     ).map(lambda s: {"t": "text", "s": s})
    cps = st.one_of(st.integers(0, 0x10FFFF), st.sampled_from([0, 0x7f, 0x80, 0x7ff, 0x800, 0xd7ff, 0xd800, 0xdfff, 0xe000, 0xffff,
                                                                0x10000, 0x10ffff, 0x110000, -1])).map(lambda cp: {"t": "chr", "cp": cp})
    js = s_jsonval(3).map(lambda v: {"t": "json", "text": json.dumps(v, ensure_ascii=False), "depth": jdepth(v)})
    return st.one_of(ints, ints, radix, radix, s_ratcase(), s_ratcase(), byts, text, cps, js, js)


def worker(ctx):
    n = ctx.share(ctx.scale(1600, 24000))
    ctx.hyp(st.lists(s_cases(ctx.thorough), min_size=12, max_size=12), lambda b: ctx.check("batch", b), n, label="c16")
