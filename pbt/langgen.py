"""Scope-aware Hypothesis generator of programs over the AST of lang.py.

The generator tracks which names are declared in which scope and their sort (int / list / function of
a given arity), so most programs are well-formed by construction; a controlled fraction deliberately
uses an undeclared name, redeclares in the same scope or calls with a wrong argument count to exercise
the refusal rules.
"""
from hypothesis import strategies as st

NAMES = ["a", "b", "c", "d", "e", "g", "h", "k"]
INTO = ["sum", "count", "first", "last", "max", "min"]


class G:
    def __init__(self):
        self.scopes = [{}]     # name -> sort
        self.maybe = [set()]   # names declared on a path that may not execute: neither usable nor re-declarable
        self.loops = 0         # loop depth inside the current function body
        self.infunc = False
        self.noscope = 0

    def visible(self, pred):
        out = {}
        for s, mb in zip(self.scopes, self.maybe):
            for n in mb:
                out.pop(n, None)   # possibly shadowed from here on by a declaration on a path that may not have run
            for n, srt in s.items():
                out[n] = srt
        return sorted(n for n, srt in out.items() if pred(srt))

    def declared_here(self, name):
        return name in self.scopes[-1]

    def push(self):
        self.scopes.append({})
        self.maybe.append(set())

    def pop(self):
        self.scopes.pop()
        self.maybe.pop()

    def cond_begin(self):
        return set(self.scopes[-1])

    def cond_end(self, before):
        for n in list(self.scopes[-1]):
            if n not in before:
                del self.scopes[-1][n]
                self.maybe[-1].add(n)

    def declare(self, name, sort):
        self.scopes[-1][name] = sort

    def fresh_here(self, draw, sort=None):
        free = [n for n in NAMES if n not in self.scopes[-1] and n not in self.maybe[-1]]
        if sort is not None:
            # a closure created earlier in this scope that mentions an outer variable resolves the name at call time, so a
            # later declaration here re-targets it: keep the sort unchanged when shadowing
            outer = {}
            for sc in self.scopes[:-1]:
                outer.update(sc)
            free = [n for n in free if n not in outer or outer[n] == sort]
        if not free:
            return None
        return draw(st.sampled_from(free))


def _mentions(e, names):
    if isinstance(e, list):
        if e and e[0] in ("var", "assign", "opassign", "decl") and e[1] in names:
            return True
        return any(_mentions(x, names) for x in e)
    return False


def is_fn(s):
    return isinstance(s, tuple)


@st.composite
def programs(draw, max_depth=4):
    g = G()
    n = draw(st.integers(2, 6))
    stmts = [gen_stmt(draw, g, max_depth) for _ in range(n)]
    stmts = [s for s in stmts if s is not None]
    final = draw(st.sampled_from(["int", "int", "list", "none", "kv"]))
    if final == "int":
        stmts.append(gen_int(draw, g, 2))
    elif final == "list":
        stmts.append(gen_list(draw, g, 2))
    elif final == "kv":
        x = g.fresh_here(draw) or "z"
        src = gen_list(draw, g, 1)
        g.push()
        g.declare(x, "int")
        key = draw(st.sampled_from([["bin", "*", ["var", x], ["int", 1]], ["bin", "-", ["var", x], ["bin", "*", ["int", 2], ["call", ["var", "-"], [["int", 0]]]]],
                                    ["if", ["bin", "<", ["var", x], ["int", 2]], ["int", 0], ["int", 1]], ["if", ["bin", "<", ["var", x], ["int", 1]], ["str", "lo"], ["str", "hi"]]]))
        val = ["bin", "+", ["var", x], ["int", draw(st.integers(0, 3))]]
        fold = draw(st.sampled_from([None, None, "sum", "count", "max", "min", "first", "last", "any", "all", "any", "all"]))
        if fold is not None:
            val = ["seq", [["print", [["str", "v"], ["var", x]]], draw(st.sampled_from([val, ["bin", "<", ["int", 2], ["var", x]], ["bin", "-", ["var", x], ["int", 1]], gen_int(draw, g, 1)]))], False]
        g.pop()
        stmts.append(["for", [["iter", x, src]], ["yieldkv", key, val, fold]])
    return ["seq", stmts, final == "none"]


def gen_int(draw, g, d):
    ints = g.visible(lambda s: s == "int")
    opts = ["lit", "lit"]
    if ints:
        opts += ["var", "var", "var"]
    if d > 0:
        opts += ["bin", "bin", "if", "len", "andor", "call", "seqexpr", "forsum", "index", "cmp", "trycatch", "switch", "iife"]
    if d > 0 and getattr(g, "ops", None):
        opts += ["chain", "chain"]
    k = draw(st.sampled_from(opts))
    if k == "chain":
        n = draw(st.integers(2, 4))
        return ["chain", gen_int(draw, g, 0), [[draw(st.sampled_from(g.ops)), gen_int(draw, g, 0)] for _ in range(n)]]
    if k == "lit":
        return ["int", draw(st.integers(-3, 9))]
    if k == "var":
        return ["var", draw(st.sampled_from(ints))]
    if k == "bin":
        if draw(st.integers(0, 7)) == 0:
            # the same subtraction written as a prefix call, and unary minus
            if draw(st.booleans()):
                return ["call", ["var", "-"], [gen_int(draw, g, d - 1), gen_int(draw, g, d - 1)]]
            return ["call", ["var", "-"], [gen_int(draw, g, d - 1)]]
        return ["bin", draw(st.sampled_from(["+", "-", "*"])), gen_int(draw, g, d - 1), gen_int(draw, g, d - 1)]
    if k == "cmp":
        return ["bin", draw(st.sampled_from(["<", "<=", "=="])), gen_int(draw, g, d - 1), gen_int(draw, g, d - 1)]
    if k == "if":
        return ["if", gen_int(draw, g, d - 1), gen_int(draw, g, d - 1), gen_int(draw, g, d - 1)]
    if k == "len":
        return ["len", gen_list(draw, g, d - 1)]
    if k == "andor":
        op = draw(st.sampled_from(["and", "or", "coalesce", "coalesce"]))
        if op == "coalesce" and draw(st.booleans()):
            # a left side that is null: a sequence closed by a semicolon (also of ONE statement) or an `if` without else
            if draw(st.booleans()):
                g.noscope += 1
                snap = g.cond_begin()
                left = ["seq", [gen_int(draw, g, d - 1) for _ in range(draw(st.integers(1, 2)))], True]
                g.cond_end(snap)
                g.noscope -= 1
            else:
                left = ["if", gen_int(draw, g, d - 1), gen_int(draw, g, d - 1), None]
            return ["coalesce", left, gen_int(draw, g, d - 1)]
        return [op, gen_int(draw, g, d - 1), gen_int(draw, g, d - 1)]
    if k == "call":
        fns = g.visible(lambda s: is_fn(s) and s[0] == "fn" and s[2] == "int")
        if not fns:
            return gen_int(draw, g, d - 1)
        f = draw(st.sampled_from(fns))
        srt = None
        for s in g.scopes:
            if f in s:
                srt = s[f]
        return ["call", ["var", f], gen_args(draw, g, srt, d - 1)]
    if k == "seqexpr":
        g.noscope += 1
        snap = g.cond_begin()
        ss = [x for x in [gen_stmt(draw, g, d - 1) for _ in range(draw(st.integers(1, 2)))] if x is not None]
        r = ["seq", ss + [gen_int(draw, g, d - 1)], False]
        g.cond_end(snap)   # the enclosing expression may sit in a branch that is not taken
        g.noscope -= 1
        return r
    if k == "forsum":
        x = g.fresh_here(draw)
        if x is None:
            return ["int", 1]
        src = gen_list(draw, g, d - 1)
        g.push()
        g.declare(x, "int")
        body = gen_int(draw, g, d - 1)
        g.pop()
        return ["for", [["iter", x, ["bin", "++", src, ["list", [["int", 1]]]]]],
                ["yield", body, draw(st.sampled_from(["sum", "count", "max", "min", "first", "last", "any", "all"]))]]
    if k == "index":
        lst = gen_list(draw, g, d - 1)
        return ["index", ["bin", "++", lst, ["list", [["int", 7]]]], ["int", draw(st.sampled_from([0, -1]))]]
    if k == "trycatch":
        x = draw(st.sampled_from(NAMES))
        body = draw(st.sampled_from(["throwint", "ok", "badname", "throwdeep"]))
        if body == "throwint":
            b = ["throw", gen_int(draw, g, d - 1)]
        elif body == "ok":
            b = gen_int(draw, g, d - 1)
        elif body == "badname":
            b = ["bin", "+", ["var", "undeclared_q"], ["int", 1]]
        else:
            b = ["seq", [["print", [["int", 1]]], ["throw", ["int", draw(st.integers(0, 5))]], ["int", 9]], False]
        literal = draw(st.integers(0, 5)) == 0
        g.push()
        if not literal:
            g.declare(x, "any")
        if not literal and body in ("throwint", "throwdeep") and draw(st.booleans()):
            h = ["bin", "+", ["var", x], gen_int(draw, g, d - 1)]
        else:
            h = gen_int(draw, g, d - 1)
        g.pop()
        if literal:
            return ["try", b, ["plit", draw(st.integers(0, 5))], h]
        return ["try", b, ["pname", x], h]
    if k == "switch":
        scrut = gen_int(draw, g, d - 1)
        arms = []
        wrapped = draw(st.integers(0, 7)) == 0
        if wrapped:
            scrut = ["list", [scrut]]      # lets a `case [y] ->` arm match; the catch-all arm then binds nothing
        for _ in range(draw(st.integers(0, 2))):
            g.push()
            if draw(st.integers(0, 2)) == 0:
                # prefer a binder that shadows a visible variable: later arms may mention that variable again
                vis = g.visible(lambda s_: s_ == "int")
                y = draw(st.sampled_from((vis * 2 if vis else []) + NAMES))
                g.declare(y, "int")
                arms.append([["plist1", y], gen_int(draw, g, d - 1)])   # binds a name, matches one-element lists only
            else:
                arms.append([["plit", draw(st.integers(0, 4))], gen_int(draw, g, d - 1)])
            g.pop()
        x = draw(st.sampled_from(NAMES))
        last = "pany" if wrapped else draw(st.sampled_from(["pname", "pany", "pname"]))
        g.push()
        if last == "pname":
            g.declare(x, "int")
        arms.append([[last, x] if last == "pname" else ["pany"], gen_int(draw, g, d - 1)])
        g.pop()
        return ["switch", scrut, arms]
    if k == "iife":
        lam, srt = gen_lambda(draw, g, d - 1, "int")
        return ["call", lam, gen_args(draw, g, srt, d - 1)]
    raise ValueError(k)


def gen_list(draw, g, d):
    lists = g.visible(lambda s: s == "list")
    opts = ["lit", "lit"]
    if lists:
        opts += ["var", "var"]
    if d > 0:
        opts += ["cat", "foryield", "if", "foryield2"]
    k = draw(st.sampled_from(opts))
    if k == "lit":
        return ["list", [gen_int(draw, g, max(0, d - 1)) for _ in range(draw(st.integers(0, 3)))]]
    if k == "var":
        return ["var", draw(st.sampled_from(lists))]
    if k == "cat":
        return ["bin", "++", gen_list(draw, g, d - 1), gen_list(draw, g, d - 1)]
    if k == "if":
        return ["if", gen_int(draw, g, d - 1), gen_list(draw, g, d - 1), gen_list(draw, g, d - 1)]
    return gen_for(draw, g, d, "yield")


def gen_for(draw, g, d, kind):
    """multi-clause for; kind: 'yield' (list result) or 'do'"""
    clauses = []
    pushed = 0
    nclauses = draw(st.integers(1, 3))
    saved_loops = g.loops
    for ci in range(nclauses):
        ck = draw(st.sampled_from(["iter", "iter", "iteri", "decl", "guard"])) if ci > 0 else draw(st.sampled_from(["iter", "iter", "iteri"]))
        if ck == "guard":
            clauses.append(["guard", gen_int(draw, g, max(0, d - 2))])
            continue
        if ck == "decl":
            src = gen_int(draw, g, max(0, d - 2))
            g.push()
            pushed += 1
            x = draw(st.sampled_from(NAMES))     # a fresh scope: may shadow, including an earlier clause's name
            g.declare(x, "int")
            clauses.append(["decl", x, src])
            continue
        src = gen_list(draw, g, max(0, d - 2))
        g.push()
        pushed += 1
        x = draw(st.sampled_from(NAMES))
        if ck == "iter":
            g.declare(x, "int")
            clauses.append(["iter", x, src])
        else:
            y = draw(st.sampled_from([n for n in NAMES if n != x]))
            g.declare(x, "int")
            g.declare(y, "int")
            clauses.append(["iteri", x, y, src])
    g.loops += 1
    if kind == "yield":
        if draw(st.integers(0, 4)) == 0 and d > 1:
            # closures created per iteration, collected, then called by the caller of gen_for? -> handled in gen_stmt 'closures'
            body = ["yield", gen_int(draw, g, d - 1), None]
        else:
            yexpr = gen_int(draw, g, d - 1)
            if draw(st.integers(0, 3)) == 0:
                n = draw(st.integers(0, g.loops - 1))
                if draw(st.booleans()):
                    # a list value may only leave THIS (list-valued) loop: carried further out it would become the value of an
                    # enclosing loop that the generator treats as int-valued (lists order lexicographically, the reference has ints only)
                    esc = ["break", n, draw(st.sampled_from([None, ["list", [["int", 42]]], ["int", 7]] if n == 0 else [None, ["int", 7]]))]
                else:
                    esc = ["continue", n]
                yexpr = ["if", gen_int(draw, g, 1), esc, yexpr]
            body = ["yield", yexpr, None]
    else:
        ss = [x for x in [gen_stmt(draw, g, d - 1) for _ in range(draw(st.integers(1, 3)))] if x is not None]
        body = ["do", ["seq", ss or [["null"]], draw(st.booleans())]]
    g.loops = saved_loops
    for _ in range(pushed):
        g.pop()
    return ["for", clauses, body]


def gen_args(draw, g, srt, d, wrong=False):
    _, arity, _ret = srt[0], srt[1], srt[2]
    nreq, nopt, splat = arity
    n = nreq + draw(st.integers(0, nopt)) + (draw(st.integers(0, 2)) if splat else 0)
    return [gen_int(draw, g, max(0, d)) for _ in range(n)]


def gen_lambda(draw, g, d, ret):
    """-> (lambda node, sort). Body sees the defining scopes (closure) plus its parameters."""
    shape = draw(st.sampled_from(["plain", "plain", "default", "splat_last", "splat_first", "zero", "splat_default", "default_splat"]))
    params = []
    pool = list(NAMES)
    names = draw(st.permutations(pool))[:3]
    # a parameter default is evaluated at call time in the DEFINING scope (observed: it cannot see earlier
    # parameters), so it is generated before the parameter scope is opened
    default_expr = gen_int(draw, g, 1) if shape in ("default", "splat_default", "default_splat") else None
    if default_expr is not None and _mentions(default_expr, set(names[:3])):
        # a default that mentions a name which is also a parameter of the same lambda: which binding it
        # means is not documented (observed: the outer one, looked up at call time) - not generated
        default_expr = ["int", 1]
    g.push()
    saved = (g.loops, g.infunc)
    g.loops, g.infunc = 0, True
    if shape == "zero":
        arity = (0, 0, False)
    elif shape == "plain":
        k = draw(st.integers(1, 2))
        for nm in names[:k]:
            params.append([nm, None, False])
            g.declare(nm, "int")
        arity = (k, 0, False)
    elif shape == "default":
        params.append([names[0], None, False])
        g.declare(names[0], "int")
        params.append([names[1], default_expr, False])
        g.declare(names[1], "int")
        arity = (1, 1, False)
    elif shape == "splat_default":
        # \a, ...r, b = D: the default applies only when the call has no value left for b
        params.append([names[0], None, False])
        g.declare(names[0], "int")
        params.append([names[1], None, True])
        g.declare(names[1], "list")
        params.append([names[2], default_expr, False])
        g.declare(names[2], "int")
        arity = (1, 1, True)
    elif shape == "default_splat":
        params.append([names[0], None, False])
        g.declare(names[0], "int")
        params.append([names[1], default_expr, False])
        g.declare(names[1], "int")
        params.append([names[2], None, True])
        g.declare(names[2], "list")
        arity = (1, 1, True)
    elif shape == "splat_last":
        params.append([names[0], None, False])
        g.declare(names[0], "int")
        params.append([names[1], None, True])
        g.declare(names[1], "list")
        arity = (1, 0, True)
    else:
        params.append([names[0], None, True])
        g.declare(names[0], "list")
        params.append([names[1], None, False])
        g.declare(names[1], "int")
        arity = (1, 0, True)
    ss = [x for x in [gen_stmt(draw, g, d - 1) for _ in range(draw(st.integers(0, 2)))] if x is not None]
    if ret == "int":
        res = gen_int(draw, g, max(0, d - 1))
        style = draw(st.integers(0, 5))
        if style == 0:
            res = ["seq", [["return", res], ["int", 99]], False]
        elif style == 1:
            # return from inside a (possibly nested) loop
            x = draw(st.sampled_from(NAMES))
            src = gen_list(draw, g, 0)
            g.push()
            g.declare(x, "int")
            cond = gen_int(draw, g, 1)
            rv = gen_int(draw, g, 1)
            g.pop()
            inner = ["if", cond, ["return", rv], None]
            if draw(st.booleans()):
                inner = ["for", [["iter", draw(st.sampled_from(NAMES)), ["list", [["int", 1], ["int", 2]]]]], ["do", inner]]
            ss.append(["for", [["iter", x, ["bin", "++", src, ["list", [["int", 3]]]]]], ["do", inner]])
    else:
        # returns a closure over its parameters / locals
        inner, isrt = gen_lambda(draw, g, max(0, d - 1), "int")
        res = inner
        ret = isrt
    body = ["seq", ss + [res], False]
    g.loops, g.infunc = saved
    g.pop()
    return ["lambda", params, body], ("fn", arity, ret)


def gen_stmt(draw, g, d):
    ints = g.visible(lambda s: s == "int")
    lists = g.visible(lambda s: s == "list")
    if getattr(g, "no_outer_assign", False):
        # (C17) frozen code may not assign to the outermost scope's variables: only names whose innermost
        # declaration is inside the generated lambda are assignment targets
        def local(n):
            for sc in reversed(g.scopes):
                if n in sc:
                    return sc is not g.scopes[0]
            return False
        ints = [n for n in ints if local(n)]
        lists = [n for n in lists if local(n)]
    opts = ["decl_int", "decl_int", "decl_list", "print", "print"]
    if ints:
        opts += ["assign", "assign", "opassign"]
    if lists:
        opts += ["assign_list"]
    if d > 0:
        opts += ["if", "while", "for", "for", "deffn", "try", "closures", "callfx", "eval", "mkclosure", "shadow", "errstmt"]
        if g.loops > 0:
            opts += ["break", "break", "continue", "continue"]
        if g.infunc:
            opts += ["return"]
    if getattr(g, "no_eval", False):
        opts = [o for o in opts if o != "eval"]
    k = draw(st.sampled_from(opts))
    if k == "decl_int":
        x = g.fresh_here(draw, "int")
        if x is None:
            return None
        e = gen_int(draw, g, d)
        g.declare(x, "int")
        return ["decl", x, e]
    if k == "decl_list":
        x = g.fresh_here(draw, "list")
        if x is None:
            return None
        e = gen_list(draw, g, d)
        g.declare(x, "list")
        return ["decl", x, e]
    if k == "print":
        what = draw(st.sampled_from(["int", "list", "both", "str"]))
        if what == "int":
            return ["print", [gen_int(draw, g, max(0, d - 1))]]
        if what == "list":
            return ["print", [gen_list(draw, g, max(0, d - 1))]]
        if what == "str":
            return ["print", [["str", draw(st.sampled_from(["x", "lbl", ""]))], gen_int(draw, g, 0)]]
        return ["print", [gen_int(draw, g, 0), gen_list(draw, g, 0)]]
    if k == "assign":
        return ["assign", draw(st.sampled_from(ints)), gen_int(draw, g, d)]
    if k == "assign_list":
        return ["assign", draw(st.sampled_from(lists)), gen_list(draw, g, d)]
    if k == "opassign":
        return ["opassign", draw(st.sampled_from(ints)), draw(st.sampled_from(["+", "-", "*"])), gen_int(draw, g, d)]
    if k == "if":
        c = gen_int(draw, g, d - 1)
        g.noscope += 1
        snap = g.cond_begin()
        t = gen_block(draw, g, d - 1)
        g.cond_end(snap)
        snap = g.cond_begin()
        e = gen_block(draw, g, d - 1) if draw(st.booleans()) else None
        g.cond_end(snap)
        g.noscope -= 1
        return ["if", c, t, e]
    if k == "while":
        w = g.fresh_here(draw, "int")
        if w is None:
            return None
        g.declare(w, "int")
        g.push()
        cond = ["bin", "<", ["int", 0], ["var", w]]
        if draw(st.integers(0, 2)) == 0:
            # the condition itself declares a name: condition and body share one fresh scope per iteration
            j = draw(st.sampled_from([n for n in NAMES if n != w]))
            cond = ["seq", [["decl", j, ["bin", "+", ["bin", "*", ["var", w], ["int", 2]], gen_int(draw, g, 0)]], cond], False]
            g.declare(j, "int")
        g.loops += 1
        body = [x for x in [gen_stmt(draw, g, d - 1) for _ in range(draw(st.integers(1, 3)))] if x is not None]
        g.loops -= 1
        g.pop()
        return ["seq", [["decl", w, ["int", draw(st.integers(1, 4))]],
                        ["while", cond, ["seq", [["assign", w, ["bin", "-", ["var", w], ["int", 1]]]] + body, draw(st.booleans())]]], True]
    if k == "for":
        if g.loops > 0 and draw(st.booleans()):
            # a comprehension evaluated for its value inside an enclosing loop (counted breaks cross it)
            return ["print", [gen_for(draw, g, d, "yield")]]
        return gen_for(draw, g, d, "do")
    if k == "deffn":
        f = g.fresh_here(draw, "__unshadowing__")
        if f is None:
            return None
        lam, srt = gen_lambda(draw, g, d - 1, "int")
        g.declare(f, srt)
        return ["decl", f, lam]
    if k == "mkclosure":
        # a function that returns a closure over its parameter; the closure escapes and is called later
        f, h = g.fresh_here(draw, "__unshadowing__"), None
        if f is None:
            return None
        lam, srt = gen_lambda(draw, g, d - 1, "fn")
        g.declare(f, ("maker",))
        h = g.fresh_here(draw, "__unshadowing__")
        if h is None:
            return ["decl", f, lam]
        inner = srt[2]
        g.declare(h, inner)
        return ["seq", [["decl", f, lam], ["decl", h, ["call", ["var", f], gen_args(draw, g, srt, 0)]]], True]
    if k == "closures":
        # one closure per loop iteration, called after the loop
        fs, x, r = g.fresh_here(draw, "__unshadowing__"), None, None
        if fs is None:
            return None
        g.declare(fs, "fnlist")
        x = draw(st.sampled_from(NAMES))
        src = gen_list(draw, g, max(0, d - 2))
        shape = draw(st.sampled_from(["iter", "iter", "iteri", "iteri", "decl"]))
        g.push()
        g.declare(x, "int")
        clauses = [["iter", x, src]]
        if shape == "iteri":
            # index/element iteration: each iteration's pair of bindings is captured separately as well
            ix = draw(st.sampled_from([n for n in NAMES if n != x]))
            g.declare(ix, "int")
            clauses = [["iteri", ix, x, src]]
        elif shape == "decl":
            w = draw(st.sampled_from([n for n in NAMES if n != x]))
            clauses.append(["decl", w, ["bin", "+", ["bin", "*", ["var", x], ["int", 10]], ["int", draw(st.integers(0, 9))]]])
            g.push()
            g.declare(w, "int")
        body = gen_int(draw, g, max(0, d - 2))
        if shape == "iteri":
            body = ["bin", "+", ["bin", "*", ["var", ix], ["int", 100]], ["bin", "+", ["var", x], body]]
        elif shape == "decl":
            body = ["bin", "+", ["var", w], body]
            g.pop()
        g.pop()
        loop = ["for", clauses, ["yield", ["lambda", [], body], None]]
        y = draw(st.sampled_from([n for n in NAMES if n != fs]))
        return ["seq", [["decl", fs, loop], ["print", [["for", [["iter", y, ["var", fs]]], ["yield", ["call", ["var", y], []], None]]]]], True]
    if k == "try":
        x = draw(st.sampled_from(NAMES))
        g.noscope += 1
        snap = g.cond_begin()
        b = gen_block(draw, g, d - 1, may_throw=True)
        g.cond_end(snap)
        g.noscope -= 1
        g.push()
        g.declare(x, "any")
        h = gen_block(draw, g, d - 1)
        g.pop()
        return ["try", b, ["pname", x], h]
    if k == "callfx":
        fns = g.visible(lambda s: is_fn(s) and s[0] == "fn" and s[2] == "int")
        if not fns:
            return None
        f = draw(st.sampled_from(fns))
        srt = None
        for s in g.scopes:
            if f in s:
                srt = s[f]
        return ["print", [["call", ["var", f], gen_args(draw, g, srt, d - 1)]]]
    if k == "eval":
        # eval runs in the caller's scope: it may read, assign and declare there
        g.noscope += 1
        saved = (g.loops, g.infunc)
        g.loops, g.infunc = 0, False      # no break/continue/return across the eval boundary (undocumented)
        sub = gen_block(draw, g, d - 1)
        g.loops, g.infunc = saved
        g.noscope -= 1
        return ["eval", sub]
    if k == "shadow":
        # inner scope shadows an outer name, then the outer is read again
        allints = g.visible(lambda s_: s_ == "int")
        if not allints:
            return None
        x = draw(st.sampled_from(allints))
        y = draw(st.sampled_from(NAMES))
        return ["seq", [["for", [["iter", y, ["list", [["int", 1], ["int", 2]]]], ["decl", x, ["bin", "*", ["var", y], ["int", 10]]]], ["do", ["print", [["var", x]]]]],
                        ["print", [["var", x]]]], True]
    if k == "errstmt":
        which = draw(st.sampled_from(["undeclared_read", "undeclared_assign", "redeclare", "argcount", "break_n"]))
        if which == "undeclared_read":
            return ["print", [["var", "nosuch_" + draw(st.sampled_from(NAMES))]]]
        if which == "undeclared_assign":
            return ["assign", "nosuch_" + draw(st.sampled_from(NAMES)), ["int", 1]]
        if which == "redeclare":
            here = sorted(g.scopes[-1])
            if not here or g.noscope == 0 and len(g.scopes) > 1 and False:
                return None
            return ["decl", draw(st.sampled_from(here)), ["int", 0]]
        if which == "argcount":
            fns = g.visible(lambda s: is_fn(s) and s[0] == "fn" and not s[1][2])
            if not fns:
                return None
            f = draw(st.sampled_from(fns))
            srt = None
            for s in g.scopes:
                if f in s:
                    srt = s[f]
            n = srt[1][0] + srt[1][1] + 1 if draw(st.booleans()) or srt[1][0] == 0 else srt[1][0] - 1
            return ["print", [["call", ["var", f], [["int", 1]] * n]]]
        return None
    if k == "break":
        n = draw(st.integers(0, g.loops - 1))
        v = draw(st.sampled_from([None, None, "int"]))
        b = ["break", n, gen_int(draw, g, 0) if v else None]
        return ["if", gen_int(draw, g, max(0, d - 1)), b, None]
    if k == "continue":
        n = draw(st.integers(0, g.loops - 1))
        return ["if", gen_int(draw, g, max(0, d - 1)), ["continue", n], None]
    if k == "return":
        return ["if", gen_int(draw, g, max(0, d - 1)), ["return", gen_int(draw, g, 0)], None]
    raise ValueError(k)


def gen_block(draw, g, d, may_throw=False):
    """a parenthesised sequence evaluated in the CURRENT scope (if / try body / eval open no scope)"""
    thr = None
    if may_throw and draw(st.booleans()):
        # the condition is generated before the block's own declarations exist, so it may sit anywhere in it
        thr = ["if", gen_int(draw, g, 0), ["throw", draw(st.sampled_from([["int", 5], ["str", "boom"], ["list", [["int", 1]]]]))], None]
    ss = [x for x in [gen_stmt(draw, g, d) for _ in range(draw(st.integers(1, 3)))] if x is not None]
    if thr is not None:
        ss.insert(draw(st.integers(0, len(ss))), thr)
    return ["seq", ss or [["null"]], draw(st.booleans())]
