"""AST for the language core, printer to concrete syntax and reference interpreter of the documented
rules (DESIGN.md Appendix A). Nodes are JSON lists so that programs shrink and replay as plain data.

The reference interpreter implements ONLY the documented rules: lexical scoping with a fresh scope
per call, per loop iteration (each clause of a `for`), per while iteration, per switch arm and per
catch clause; `if`, sequences, try bodies and eval open none; := refuses redeclaration in the same
scope, = assigns to the nearest enclosing declaration and refuses undeclared names; closures capture
variables; everything is a value. It counts steps.
"""
import copy

from .values import NDict, render_str


class Opaque:
    """an error value raised by the interpreter itself: its text is unspecified"""

    def __repr__(self):
        return "<opaque error>"


class Closure:
    def __init__(self, params, body, env):
        self.params, self.body, self.env = params, body, env


class Builtin:
    def __init__(self, name):
        self.name = name


class NErrorEx(Exception):      # interpreter-raised error (catchable)
    pass


class ThrowEx(Exception):
    def __init__(self, value):
        self.value = value


class BreakEx(Exception):
    def __init__(self, n, value, has=True):
        self.n, self.value, self.has = n, value, has   # has: `break v` (even v = null) vs a bare `break`


class ContinueEx(Exception):
    def __init__(self, n):
        self.n = n


class ReturnEx(Exception):
    def __init__(self, value):
        self.value = value


class StepLimit(Exception):
    pass


MAX_LIST = 5000


class Env:
    def __init__(self, parent=None):
        self.vars = {}
        self.parent = parent

    def lookup(self, name):
        e = self
        while e is not None:
            if name in e.vars:
                return e
            e = e.parent
        return None


INTO = ["sum", "count", "first", "last", "max", "min"]
BUILTIN_NAMES = ["len", "not", "print", "sum", "count", "first", "last", "max", "min", "-"]


# ---- printer ---------------------------------------------------------------------------------------------

def pr(e):
    t = e[0]
    if t == "int":
        return str(e[1]) if e[1] >= 0 else "(0-%d)" % -e[1]
    if t == "str":
        return render_str(e[1])
    if t == "null":
        return "null"
    if t == "list":
        return "[%s]" % ", ".join(pr(x) for x in e[1])
    if t == "var":
        return e[1]
    if t == "bin":
        return "(%s %s %s)" % (pr(e[2]), e[1], pr(e[3]))
    if t == "len":
        return "len(%s)" % pr(e[1])
    if t == "not":
        return "not(%s)" % pr(e[1])
    if t == "index":
        return "(%s)[%s]" % (pr(e[1]), pr(e[2]))
    if t == "call":
        f = pr(e[1])
        if e[1][0] != "var":
            f = "(%s)" % f
        return "%s(%s)" % (f, ", ".join(pr(a) for a in e[2]))
    if t == "lambda":
        ps = []
        for name, default, splat in e[1]:
            if splat:
                ps.append("...%s" % name)
            elif default is not None:
                ps.append("%s = %s" % (name, pr(default)))
            else:
                ps.append(name)
        return "(\\%s -> %s)" % (", ".join(ps), pr(e[2]))
    if t == "seq":
        if not e[1]:
            return "null"
        return "(%s%s)" % ("; ".join(pr(x) for x in e[1]), ";" if e[2] else "")
    if t == "if":
        if e[3] is None:
            return "(if (%s) %s)" % (pr(e[1]), pr(e[2]))
        return "(if (%s) %s else %s)" % (pr(e[1]), pr(e[2]), pr(e[3]))
    if t == "while":
        return "(while (%s) %s)" % (pr(e[1]), pr(e[2]))
    if t == "for":
        cl = []
        for c in e[1]:
            if c[0] == "iter":
                cl.append("%s <- %s" % (c[1], pr(c[2])))
            elif c[0] == "iteri":
                cl.append("%s, %s <<- %s" % (c[1], c[2], pr(c[3])))
            elif c[0] == "decl":
                cl.append("%s := %s" % (c[1], pr(c[2])))
            else:
                cl.append("if %s" % pr(c[1]))
        b = e[2]
        if b[0] == "do":
            body = pr(b[1])
        elif b[0] == "yield":
            body = "yield %s" % pr(b[1]) + (" into %s" % b[2] if b[2] else "")
        else:
            body = "yield %s: %s" % (pr(b[1]), pr(b[2])) + (" into %s" % b[3] if len(b) > 3 and b[3] else "")
        return "(for (%s) %s)" % ("; ".join(cl), body)
    if t == "break":
        return "(%s%s)" % (" ".join(["break"] * (e[1] + 1)), " " + pr(e[2]) if e[2] is not None else "")
    if t == "continue":
        return "(%s)" % " ".join(["break"] * e[1] + ["continue"])
    if t == "return":
        return "(return %s)" % pr(e[1])
    if t == "throw":
        return "(throw %s)" % pr(e[1])
    if t == "try":
        pat = e[2][1] if e[2][0] == "pname" else pr(["int", e[2][1]])
        return "(try %s catch %s -> %s)" % (pr(e[1]), pat, pr(e[3]))
    if t in ("and", "or", "coalesce"):
        return "(%s %s %s)" % (pr(e[1]), t, pr(e[2]))
    if t == "decl":
        return "%s := %s" % (e[1], pr(e[2]))
    if t == "assign":
        return "%s = %s" % (e[1], pr(e[2]))
    if t == "opassign":
        return "%s %s= %s" % (e[1], e[2], pr(e[3]))
    if t == "print":
        return "print(%s)" % ", ".join(pr(x) for x in e[1])
    if t == "eval":
        return "eval(%s)" % render_str(pr(e[1]))
    if t == "chain":
        # unparenthesised infix chain over operator variables (grouping depends on their runtime precedence)
        return "(%s)" % " ".join([pr(e[1])] + ["%s %s" % (op, pr(x)) for op, x in e[2]])
    if t == "raw":
        return e[1]
    if t == "switch":
        arms = []
        for pat, body in e[2]:
            if pat[0] == "pany":
                p = "_"
            elif pat[0] == "pname":
                p = pat[1]
            elif pat[0] == "plist1":
                p = "[%s]" % pat[1]
            else:
                p = pr(["int", pat[1]])
            arms.append("case %s -> %s" % (p, pr(body)))
        return "(switch (%s) %s)" % (pr(e[1]), " ".join(arms))
    raise ValueError(t)


# ---- display (print) -------------------------------------------------------------------------------------

def display(v, top=True):
    if v is None:
        return "null"
    if isinstance(v, bool):
        raise TypeError
    if isinstance(v, int):
        return str(v)
    if isinstance(v, str):
        return v if top else '"%s"' % v
    if isinstance(v, list):
        return "[%s]" % ", ".join(display(x, False) for x in v)
    if isinstance(v, Opaque):
        raise OpaqueReached()
    if isinstance(v, (Closure, Builtin)):
        raise OpaqueReached()
    if isinstance(v, NDict):
        raise OpaqueReached()
    raise TypeError(v)


class OpaqueReached(Exception):
    pass


def truthy(v):
    if v is None:
        return False
    if isinstance(v, int):
        return v != 0
    if isinstance(v, (str, list)):
        return len(v) > 0
    if isinstance(v, NDict):
        return len(v) > 0
    return True


# ---- reference interpreter ---------------------------------------------------------------------------------

class Interp:
    def __init__(self, max_steps=3000):
        self.out = []
        self.steps = 0
        self.max_steps = max_steps
        self.cover = set()
        self.top = Env()
        for n in BUILTIN_NAMES:
            self.top.vars[n] = Builtin(n)

    def tick(self):
        self.steps += 1
        if self.steps > self.max_steps:
            raise StepLimit()

    def run(self, prog):
        """-> ('ok', value) | ('err', thrown value or Opaque) ; raises StepLimit / OpaqueReached"""
        env = Env(self.top)   # the session's top-level scope
        try:
            return ("ok", self.ev(prog, env))
        except ThrowEx as t:
            return ("err", t.value)
        except NErrorEx:
            return ("err", Opaque())
        except (BreakEx, ContinueEx, ReturnEx):
            return ("ctrl", None)

    def err(self):
        raise NErrorEx()

    def declare(self, env, name, val):
        if name in env.vars:
            self.err()
        env.vars[name] = val

    def ev(self, e, env):
        self.tick()
        t = e[0]
        self.cover.add(t)
        if t == "int" or t == "str":
            return e[1]
        if t == "null":
            return None
        if t == "list":
            return [self.ev(x, env) for x in e[1]]
        if t == "var":
            s = env.lookup(e[1])
            if s is None:
                self.err()
            return s.vars[e[1]]  # values are never mutated in place by this interpreter, so sharing is unobservable
        if t == "bin":
            a = self.ev(e[2], env)
            b = self.ev(e[3], env)
            return self.binop(e[1], a, b)
        if t == "len":
            v = self.ev(e[1], env)
            if not isinstance(v, (list, str)):
                self.err()
            return len(v)
        if t == "not":
            return 0 if truthy(self.ev(e[1], env)) else 1
        if t == "index":
            v = self.ev(e[1], env)
            i = self.ev(e[2], env)
            if not isinstance(v, list) or not isinstance(i, int) or not (-len(v) <= i < len(v)):
                self.err()
            return v[i]
        if t == "call":
            f = self.ev(e[1], env)
            args = [self.ev(a, env) for a in e[2]]
            return self.call(f, args)
        if t == "lambda":
            return Closure(e[1], e[2], env)
        if t == "seq":
            v = None
            for x in e[1]:
                v = self.ev(x, env)
            return None if e[2] else v
        if t == "if":
            if truthy(self.ev(e[1], env)):
                return self.ev(e[2], env)
            return self.ev(e[3], env) if e[3] is not None else None
        if t == "while":
            while True:
                it = Env(env)
                if not truthy(self.ev(e[1], it)):
                    return None
                try:
                    self.ev(e[2], it)
                except BreakEx as b:
                    if b.n > 0:
                        raise BreakEx(b.n - 1, b.value, b.has)
                    return b.value
                except ContinueEx as c:
                    if c.n > 0:
                        raise ContinueEx(c.n - 1)
        if t == "for":
            return self.for_loop(e, env)
        if t == "break":
            v = self.ev(e[2], env) if e[2] is not None else None
            raise BreakEx(e[1], v, e[2] is not None)
        if t == "continue":
            raise ContinueEx(e[1])
        if t == "return":
            raise ReturnEx(self.ev(e[1], env))
        if t == "throw":
            raise ThrowEx(self.ev(e[1], env))
        if t == "try":
            try:
                return self.ev(e[1], env)
            except (ThrowEx, NErrorEx) as ex:
                val = ex.value if isinstance(ex, ThrowEx) else Opaque()
                pat = e[2]
                h = Env(env)
                if pat[0] == "pname":
                    h.vars[pat[1]] = val
                elif not (isinstance(val, int) and val == pat[1]):
                    raise
                return self.ev(e[3], h)
        if t == "and":
            a = self.ev(e[1], env)
            return self.ev(e[2], env) if truthy(a) else a
        if t == "or":
            a = self.ev(e[1], env)
            return a if truthy(a) else self.ev(e[2], env)
        if t == "coalesce":
            a = self.ev(e[1], env)
            return self.ev(e[2], env) if a is None else a
        if t == "decl":
            v = self.ev(e[2], env)
            self.declare(env, e[1], v)
            return None
        if t == "assign":
            v = self.ev(e[2], env)
            s = env.lookup(e[1])
            if s is None or s is self.top:
                self.err()
            s.vars[e[1]] = v
            return None
        if t == "opassign":
            s = env.lookup(e[1])
            if s is None or s is self.top:
                self.err()
            old = s.vars[e[1]]
            v = self.ev(e[3], env)
            s2 = env.lookup(e[1])
            s2.vars[e[1]] = self.binop(e[2], old, v)
            return None
        if t == "print":
            vals = [self.ev(x, env) for x in e[1]]
            self.out.append(" ".join(display(v) for v in vals) + "\n")
            return None
        if t == "eval":
            try:
                return self.ev(e[1], env)
            except ThrowEx:
                # builtins (eval included) decorate an error passing through them with their name, so the
                # thrown value is no longer the user's value: only the fact of raising is modelled
                raise ThrowEx(Opaque())
        if t == "switch":
            v = self.ev(e[1], env)
            for pat, body in e[2]:
                arm = Env(env)
                if pat[0] == "pany":
                    return self.ev(body, arm)
                if pat[0] == "pname":
                    arm.vars[pat[1]] = v
                    return self.ev(body, arm)
                if pat[0] == "plist1":
                    if isinstance(v, list) and len(v) == 1:
                        arm.vars[pat[1]] = v[0]
                        return self.ev(body, arm)
                    continue
                if isinstance(v, int) and v == pat[1]:
                    return self.ev(body, arm)
            self.err()
        raise ValueError(t)

    def binop(self, op, a, b):
        ints = isinstance(a, int) and isinstance(b, int)
        if op in ("+", "-", "*"):
            if not ints:
                self.err()
            r = a + b if op == "+" else (a - b if op == "-" else a * b)
            if r.bit_length() > 60:
                raise StepLimit()   # integers stay small here (arithmetic is C06's business); excluded and counted
            return r
        if op in ("<", "<="):
            if not ints:
                self.err()
            return int(a < b) if op == "<" else int(a <= b)
        if op == "==":
            if isinstance(a, (Closure, Builtin, Opaque)) or isinstance(b, (Closure, Builtin, Opaque)):
                raise OpaqueReached()
            return int(a == b and type(a) == type(b))
        if op == "++":
            if not (isinstance(a, list) and isinstance(b, list)):
                self.err()
            if len(a) + len(b) > MAX_LIST:
                raise StepLimit()     # a list doubled in nested loops: resource, not semantics (the case is discarded)
            return a + b
        raise ValueError(op)

    def call(self, f, args):
        self.tick()
        if isinstance(f, Builtin):
            return self.builtin(f.name, args)
        if not isinstance(f, Closure):
            # calling a non-function: the language partially applies in some cases; not generated on purpose
            raise OpaqueReached()
        scope = Env(f.env)
        params = f.params
        nsplat = sum(1 for p in params if p[2])
        nonsplat = [p for p in params if not p[2]]
        if nsplat == 0 and len(args) > len(params):
            self.err()
        # a defaulted parameter takes its default exactly when the call supplies no more arguments than there are
        # non-splat parameters before it; the defaults that are needed are evaluated first, in the fresh call scope, before
        # any parameter is bound (so they see the defining scope but not the other parameters); then the values are dealt out:
        # parameters before the splat from the front, those after it from the back, the splat takes what is left
        vals = list(args)
        seen = 0
        needed = []
        for (name, default, splat) in params:
            if splat:
                continue
            if default is not None and len(args) <= seen:
                needed.append(default)
            seen += 1
        if nsplat == 0 and len(args) + len(needed) != len(params):
            self.err()      # without a splat the count is checked before any default is evaluated
        for default in needed:
            vals.append(self.ev(default, scope))
        if len(vals) < len(nonsplat):
            self.err()
        if nsplat == 0:
            if len(vals) != len(params):
                self.err()
            for (name, _, _), v in zip(params, vals):
                self.declare(scope, name, v)
        else:
            si = [i for i, p in enumerate(params) if p[2]][0]
            before = params[:si]
            after = params[si + 1:]
            for i, (name, _, _) in enumerate(before):
                self.declare(scope, name, vals[i])
            mid = vals[len(before):len(vals) - len(after)]
            self.declare(scope, params[si][0], list(mid))
            for j, (name, _, _) in enumerate(after):
                self.declare(scope, name, vals[len(vals) - len(after) + j])
        try:
            return self.ev(f.body, scope)
        except ReturnEx as r:
            return r.value

    def builtin(self, name, args):
        if name == "print":
            self.out.append(" ".join(display(v) for v in args) + "\n")
            return None
        if name == "-":
            if len(args) == 2:
                return self.binop("-", args[0], args[1])
            if len(args) == 1 and isinstance(args[0], int):
                return -args[0]
            raise OpaqueReached()
        if len(args) != 1:
            raise OpaqueReached()
        v = args[0]
        if name == "len":
            if not isinstance(v, (list, str)):
                self.err()
            return len(v)
        if name == "not":
            return 0 if truthy(v) else 1
        return self.into(name, v)

    def into(self, name, xs):
        if not isinstance(xs, list):
            self.err()
        if name == "count":
            return sum(1 for x in xs if truthy(x))
        if name == "any":
            return int(any(truthy(x) for x in xs))
        if name == "all":
            return int(all(truthy(x) for x in xs))
        if name == "sum":
            if not all(isinstance(x, int) for x in xs):
                self.err()
            if sum(xs).bit_length() > 60:
                raise StepLimit()
            return sum(xs)
        if not xs:
            self.err()
        if name == "first":
            return xs[0]
        if name == "last":
            return xs[-1]
        if not all(isinstance(x, int) for x in xs):
            self.err()
        return max(xs) if name == "max" else min(xs)

    def for_loop(self, e, env):
        clauses, body = e[1], e[2]
        acc = []
        kv = NDict()

        per_key, decided = {}, set()

        def decisive(fold, v):
            return fold == "first" or (fold == "any" and truthy(v)) or (fold == "all" and not truthy(v))

        def run_body(scope):
            if body[0] == "do":
                self.ev(body[1], scope)
            elif body[0] == "yield":
                acc.append(self.ev(body[1], scope))
                if decisive(body[2], acc[-1]):
                    raise _StopFold()    # first / any / all are short-circuiting folds (tests: short_circuiting_folds)
            else:
                key = self.ev(body[1], scope)
                if not isinstance(key, (int, str)):
                    raise OpaqueReached()
                fold = body[3] if len(body) > 3 else None
                if fold is None:
                    kv.set(key, self.ev(body[2], scope))
                    return
                # yield k: v into f folds per key; once a key's short-circuiting fold is decided, later values for that key
                # are not even evaluated (observed), the other keys go on
                tag = (type(key).__name__, key)
                if tag in decided:
                    return
                val = self.ev(body[2], scope)
                per_key.setdefault(tag, (key, []))[1].append(val)
                if decisive(fold, val):
                    decided.add(tag)

        def rec(k, scope):
            if k == len(clauses):
                self.tick()
                try:
                    run_body(scope)
                except ContinueEx as ce:
                    # only a continue raised by the body itself ends the iteration; one raised while evaluating a later
                    # clause's iterated expression, guard or declaration leaves the whole loop (evaluate_for catches
                    # Continue(0) around the callback only)
                    if ce.n > 0:
                        raise
                return
            c = clauses[k]
            if c[0] == "guard":
                if truthy(self.ev(c[1], scope)):
                    rec(k + 1, scope)
                return
            if c[0] == "decl":
                inner = Env(scope)
                inner.vars[c[1]] = self.ev(c[2], scope)
                rec(k + 1, inner)
                return
            src = self.ev(c[2] if c[0] == "iter" else c[3], scope)
            if isinstance(src, str):
                items = list(src)
            elif isinstance(src, list):
                items = list(src)
            else:
                self.err()
            for idx, item in enumerate(items):
                inner = Env(scope)
                if c[0] == "iter":
                    inner.vars[c[1]] = item
                else:
                    if c[1] == c[2]:
                        self.err()
                    inner.vars[c[1]] = idx
                    inner.vars[c[2]] = item
                rec(k + 1, inner)

        try:
            rec(0, env)
        except _StopFold:
            pass
        except BreakEx as b:
            if b.n > 0:
                raise BreakEx(b.n - 1, b.value, b.has)
            if b.has or body[0] == "do":
                return b.value
            # a bare `break` in a yield loop just stops collecting: the loop evaluates to what it has so far
        except ContinueEx as ce:
            # `break^n continue`: leave this loop and continue an outer one
            if ce.n > 0:
                raise ContinueEx(ce.n - 1)
            # n == 0 here means the continue was raised while evaluating an iterated expression / guard /
            # declaration outside any iteration of this loop: it belongs to the enclosing loop
            raise
        if body[0] == "do":
            return None
        if body[0] == "yield":
            if body[2]:
                return self.into(body[2], acc)
            return acc
        if len(body) > 3 and body[3]:
            for key, vals in per_key.values():
                kv.set(key, self.into(body[3], vals))
        return kv


class _StopFold(Exception):
    pass
