"""Shared generator helpers.

Hypothesis' bounded `st.integers(lo, hi)` concentrates on small magnitudes (measured: of 2000 draws from
`st.integers(1, 200).flatmap(lambda k: st.integers(-2**k, 2**k))` only 3% exceeded 60 bits), which starves every check
whose interesting region is "wider than a machine word / wider than a double's mantissa". `wide_ints` draws the bit
length uniformly and the bits from `st.binary` (uniform bytes), so every width is equally likely; shrinking still works
(fewer bits, then smaller bytes).
"""
from hypothesis import strategies as st


def nbit(k):
    """integers with exactly k significant bits (k >= 1), non-negative"""
    nb = (k + 7) // 8
    return st.binary(min_size=nb, max_size=nb).map(lambda bs: (int.from_bytes(bs, "big") & ((1 << k) - 1)) | (1 << (k - 1)))


def wide_ints(lo_bits, hi_bits, signed=True):
    mag = st.sampled_from(list(range(max(1, lo_bits), hi_bits + 1))).flatmap(nbit)
    if not signed:
        return mag
    return st.builds(lambda m, neg: -m if neg else m, mag, st.booleans())
