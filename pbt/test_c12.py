"""C12 - patterns, destructuring, switch and runtime type annotations.

match    generated pattern ASTs (depth <= 3) x scrutinee values built to match or to miss by one feature,
         in every binding context (switch arm, :=, =, lambda parameter, for clause, catch), against a
         reference matcher written from the statement.
switch   2-5 arms: the first matching arm runs, none -> error.
typed    histories on annotated variables: after every statement that completed without raising `x is T`
         holds, and an assignment of a value that IS of type T never raises.
table    v is type(v), v is anything, T(v) is T for the whole value pool.
"""
import copy
import math
from fractions import Fraction

from hypothesis import strategies as st

from .core import Fail, GeneratorBug
from .pool import POOL
from .values import Inst, NDict, Vec, key_eq, mcanon, norm, render

PID = "C12"
LEVEL = "exploration"
RULE = ("Hypothesis pattern x value x context cases; non-trivial = the pattern has >= 2 features (splat, default, alternative, "
        "conjunction, annotation, struct, operator pattern, nesting) or the value is a near miss; typed histories are non-trivial "
        "when at least one assignment was refused; distinct by source text")
ASSUMPTIONS = [
    "lambda parameters and for clauses reject literal patterns at parse time (observed): literal-free patterns only there",
    "defaults are generated in switch / catch / = / lambda contexts, not directly under := (see DESIGN.md Appendix B)",
    "a satisfying(pred) whose predicate raises on the value counts as not matching",
    "sequence patterns are matched against lists, strings (characters) and vectors; dict scrutinees are not generated (order)",
]


class NoMatch(Exception):
    pass


TYPES = ["int", "str", "list", "float", "rational", "number", "anything", "nulltype", "dict", "vector", "Foo", "sat_even", "sat_pos", "sat_gt3", "sat_self"]
TYPED_TYPES = TYPES + ["stream", "bytes"]


class StreamV:
    """the stream 1 to 3 (only used as a value of annotated variables)"""


def is_type(T, v):
    if T == "anything":
        return True
    if T == "sat_gt3":
        # the predicate answers 1 or null (an `if` without else): null counts as "does not satisfy"
        return isinstance(v, int) and not isinstance(v, bool) and v > 3
    if T == "sat_self":
        # the predicate returns the value itself: the value's truthiness decides
        if v is None:
            return False
        if isinstance(v, (int, float, Fraction)):
            return v != 0
        if isinstance(v, (str, list, bytes)):
            return len(v) > 0
        if isinstance(v, Vec):
            return len(v.xs) > 0
        if isinstance(v, NDict):
            return len(v) > 0
        return True
    if isinstance(v, (StreamV, bytes)) and T not in ("stream", "bytes"):
        return T == "sat_even" and False
    if T == "int":
        return isinstance(v, int) and not isinstance(v, bool)
    if T == "str":
        return isinstance(v, str)
    if T == "list":
        return isinstance(v, list)
    if T == "float":
        return isinstance(v, float)
    if T == "rational":
        return isinstance(v, Fraction)
    if T == "number":
        return isinstance(v, (int, float, Fraction, complex)) and not isinstance(v, bool)
    if T == "nulltype":
        return v is None
    if T == "dict":
        return isinstance(v, NDict)
    if T == "vector":
        return isinstance(v, Vec)
    if T == "Foo":
        return isinstance(v, Inst) and v.name == "Foo"
    if T == "stream":
        return isinstance(v, StreamV)
    if T == "bytes":
        return isinstance(v, bytes)
    if T == "sat_even":
        if isinstance(v, Vec):
            return len(v.xs) > 0      # `even` vectorises and a non-empty vector is truthy
        return isinstance(v, (int, float, Fraction)) and v % 2 == 0
    if T == "sat_pos":
        return isinstance(v, (int, float, Fraction)) and v > 0
    raise ValueError(T)


TSRC = {"sat_even": "satisfying(even)", "sat_pos": "satisfying(\\t -> t > 0)", "sat_gt3": "satisfying(\\t -> if (t is int and t > 3) 1)",
        "sat_self": "satisfying(\\t -> t)"}


def seq_items(v):
    if isinstance(v, list):
        return list(v)
    if isinstance(v, str):
        return list(v)
    if isinstance(v, Vec):
        return list(v.xs)
    if isinstance(v, NDict) and len(v.items) <= 1:
        return v.keys()       # a dictionary iterates its keys (only single-entry dicts: order is unspecified)
    raise NoMatch()


def match(p, v, b):
    t = p[0]
    if t == "n":
        b[p[1]] = v
    elif t == "w":
        pass
    elif t in ("i", "s"):
        if not key_eq(p[1], v):
            raise NoMatch()
    elif t == "null":
        if v is not None:
            raise NoMatch()
    elif t == "seq":
        items = p[1]
        xs = seq_items(v)
        si = [i for i, it in enumerate(items) if it[0] == "splat"]
        # a defaulted item takes its default exactly when the value has no more items than there are non-splat targets
        # before it; the defaults in play are appended to the items, which are then dealt out: targets before the splat from
        # the front, targets after it from the back, the splat takes the rest
        needed, seen = [], 0
        for it in items:
            if it[0] == "splat":
                continue
            if it[0] == "def" and len(xs) <= seen:
                needed.append(it[2])
            seen += 1
        vals = list(xs) + needed

        def give(it, x):
            if it[0] == "def":
                b[it[1]] = x
            else:
                match(it, x, b)
        if not si:
            if len(vals) != len(items):
                raise NoMatch()
            for it, x in zip(items, vals):
                give(it, x)
        else:
            k = si[0]
            before, after = items[:k], items[k + 1:]
            if len(vals) < len(before) + len(after):
                raise NoMatch()
            for it, x in zip(before, vals):
                give(it, x)
            b[items[k][1]] = vals[len(before):len(vals) - len(after)]
            for it, x in zip(after, vals[len(vals) - len(after):]):
                give(it, x)
    elif t == "or":
        b2 = dict(b)
        try:
            match(p[1], v, b2)
        except NoMatch:
            b2 = dict(b)
            match(p[2], v, b2)
        b.clear()
        b.update(b2)
    elif t == "and":
        match(p[1], v, b)
        match(p[2], v, b)
    elif t == "ann":
        match(p[1], v, b)
        if not is_type(p[2], v):
            raise NoMatch()
    elif t == "struct":
        if not (isinstance(v, Inst) and v.name == "Foo"):
            raise NoMatch()
        match(p[1][0], v.fields[0], b)
        match(p[1][1], v.fields[1], b)
    elif t == "cons":
        if not isinstance(v, (list, str)) or not v:
            raise NoMatch()
        match(p[1], v[0], b)
        match(p[2], v[1:], b)
    elif t == "snoc":
        if not isinstance(v, (list, str)) or not v:
            raise NoMatch()
        match(p[1], v[:-1], b)
        match(p[2], v[-1], b)
    elif t == "cons_chain":
        # a .+ b .+ t without parentheses: `.+` is right-associative, so this is a .+ (b .+ t)
        if not isinstance(v, (list, str)) or len(v) < len(p[1]):
            raise NoMatch()
        for i, q in enumerate(p[1]):
            match(q, v[i], b)
        b[p[2]] = v[len(p[1]):]
    elif t == "snoc_chain":
        # t +. a +. b without parentheses: `+.` is left-associative, so this is (t +. a) +. b
        if not isinstance(v, (list, str)) or len(v) < len(p[2]):
            raise NoMatch()
        k = len(p[2])
        for i, q in enumerate(p[2]):
            match(q, v[len(v) - k + i], b)
        b[p[1]] = v[:len(v) - k]
    elif t in ("plus", "plusl"):
        if not isinstance(v, (int, float, Fraction)) or isinstance(v, bool) or v - p[2] < 0:
            raise NoMatch()
        b[p[1]] = v - p[2]
    elif t == "neg":
        if not isinstance(v, (int, float, Fraction)):
            raise NoMatch()
        b[p[1]] = -v
    elif t == "div":
        if isinstance(v, Fraction):
            b[p[1]], b[p[2]] = v.numerator, v.denominator
        elif isinstance(v, int):
            b[p[1]], b[p[2]] = v, 1
        else:
            raise NoMatch()
    elif t == "between":
        o1, o2 = (p[4], p[5]) if len(p) > 4 else ("<", "<")
        if not isinstance(v, (int, float, Fraction)) or isinstance(v, bool):
            raise NoMatch()
        if not ((p[1] < v if o1 == "<" else p[1] <= v) and (v < p[3] if o2 == "<" else v <= p[3])):
            raise NoMatch()
        if p[2]:
            b[p[2]] = v
    else:
        raise ValueError(t)


def ppat(p, top=False):
    t = p[0]
    if t == "n":
        return p[1]
    if t == "w":
        return "_"
    if t == "i":
        return str(p[1])
    if t == "s":
        return render(p[1])
    if t == "null":
        return "null"
    if t == "splat":
        return "...%s" % p[1]
    if t == "def":
        return "(%s = %d)" % (p[1], p[2])
    if t == "seq":
        inner = ", ".join(ppat(x) for x in p[1]) + ("," if len(p[1]) == 1 else "")
        return inner if top else "(%s)" % inner
    if t == "or":
        return "(%s or %s)" % (ppat(p[1]), ppat(p[2]))
    if t == "and":
        return "(%s and %s)" % (ppat(p[1]), ppat(p[2]))
    if t == "ann":
        return "(%s: %s)" % (ppat(p[1]), TSRC.get(p[2], p[2]))
    if t == "struct":
        return "Foo(%s, %s)" % (ppat(p[1][0]), ppat(p[1][1]))
    if t == "cons":
        return "(%s .+ %s)" % (ppat(p[1]), ppat(p[2]))
    if t == "snoc":
        return "(%s +. %s)" % (ppat(p[1]), ppat(p[2]))
    if t == "cons_chain":
        return "(%s .+ %s)" % (" .+ ".join(ppat(q) for q in p[1]), p[2])
    if t == "snoc_chain":
        return "(%s +. %s)" % (p[1], " +. ".join(ppat(q) for q in p[2]))
    if t == "plus":
        return "(%s + %d)" % (p[1], p[2])
    if t == "plusl":
        return "(%d + %s)" % (p[2], p[1])
    if t == "neg":
        return "(-%s)" % p[1]
    if t == "div":
        return "(%s / %s)" % (p[1], p[2])
    if t == "between":
        o1, o2 = (p[4], p[5]) if len(p) > 4 else ("<", "<")
        return "(%d %s %s %s %d)" % (p[1], o1, p[2] or "_", o2, p[3])
    raise ValueError(t)


def names_of(p, acc):
    t = p[0]
    if t == "n":
        acc.add(p[1])
    elif t in ("splat", "def", "plus", "plusl", "neg"):
        acc.add(p[1])
    elif t == "div":
        acc.update([p[1], p[2]])
    elif t == "between" and p[2]:
        acc.add(p[2])
    elif t == "seq":
        for x in p[1]:
            names_of(x, acc)
    elif t in ("or",):
        names_of(p[1], acc)      # both alternatives bind the same names by construction
    elif t in ("and", "cons", "snoc"):
        names_of(p[1], acc)
        names_of(p[2], acc)
    elif t == "cons_chain":
        for x in p[1]:
            names_of(x, acc)
        acc.add(p[2])
    elif t == "snoc_chain":
        acc.add(p[1])
        for x in p[2]:
            names_of(x, acc)
    elif t == "ann":
        names_of(p[1], acc)
    elif t == "struct":
        names_of(p[1][0], acc)
        names_of(p[1][1], acc)
    return acc


def has(p, kinds):
    if p[0] in kinds:
        return True
    for x in p[1:]:
        if isinstance(x, list) and x and isinstance(x[0], str) and has(x, kinds):
            return True
        if isinstance(x, list) and x and isinstance(x[0], list):
            if any(has(y, kinds) for y in x if isinstance(y, list) and y and isinstance(y[0], str)):
                return True
    return False


def nfeatures(p):
    return sum(1 for k in ("splat", "def", "or", "and", "ann", "struct", "cons", "snoc", "cons_chain", "snoc_chain", "plus", "plusl", "neg", "div", "between") if has(p, (k,))) \
        + (1 if p[0] == "seq" and any(x[0] == "seq" for x in p[1]) else 0)


LITERALISH = ("i", "s", "null", "plus", "plusl", "between")
CONTEXTS = ["switch", "decl", "assign", "lambda", "for", "catch"]


def context_src(ctx, p, V, names):
    res = "[%s]" % ", ".join(names)
    P = ppat(p, top=True)
    if ctx == "switch":
        return "switch (%s) case %s -> %s case _ -> \"nomatch\"" % (V, P, res)
    if ctx == "decl":
        return "(\\ -> (%s := %s; %s))()" % (P, V, res)
    if ctx == "assign":
        pre = "".join("%s := null; " % n for n in names)
        return "(\\ -> (%s%s = %s; %s))()" % (pre, P, V, res)
    if ctx == "lambda":
        return "(\\(%s) -> %s)(%s)" % (ppat(p), res, V)
    if ctx == "for":
        return "for ((%s) <- [%s]) yield %s" % (ppat(p), V, res)
    if ctx == "catch":
        return "try (throw %s) catch %s -> %s" % (V, P, res)
    raise ValueError(ctx)


def from_j(j):
    """JSON-able value encoding -> model value"""
    k = j[0]
    if k == "i":
        return j[1]
    if k == "s":
        return j[1]
    if k == "f":
        return float(j[1])
    if k == "q":
        return Fraction(j[1], j[2])
    if k == "null":
        return None
    if k == "l":
        return [from_j(x) for x in j[1]]
    if k == "v":
        return Vec(j[1])
    if k == "foo":
        return Inst("Foo", [from_j(j[1]), from_j(j[2])])
    if k == "d":
        return NDict([(1, 2)])
    raise ValueError(j)


def check_match(nl, cases, ctx=None):
    items = []
    for i, c in enumerate(cases):
        p, ctxname = c["pat"], c["ctx"]
        v = from_j(c["val"])
        names = sorted(names_of(p, set()))
        if ctxname in ("lambda", "for") and has(p, LITERALISH):
            ctxname = "switch"
        if ctxname == "assign" and has(p, ("ann",)):
            ctxname = "catch"
        if ctxname == "assign" and has(p, ("neg",)):
            ctxname = "switch"      # `(-x) = v` reads as an operator-assignment
        if ctxname == "decl" and has(p, ("def",)):
            ctxname = "switch"
        if ctxname in ("for", "lambda") and has(p, ("def",)) and p[0] != "seq":
            ctxname = "switch"
        b = {}
        try:
            match(p, v, b)
            want = ("ok", [b[n] for n in names])
            if ctxname == "for":
                want = ("ok", [want[1]])     # one iteration of the comprehension
        except NoMatch:
            want = ("nomatch",)
        items.append((i, c, ctxname, context_src(ctxname, p, render(v), names), want))
    pre = ["struct Foo(fa, fb)"]
    sid = nl.open()
    try:
        nl.run(pre, sid=sid)
        results = nl.run([it[3] for it in items], sid=sid, fuel=200_000, stop_on_panic=False, timeout=60)
    finally:
        nl.close_session(sid)
    fails = []
    for (i, c, ctxname, src, want), r in zip(items, results):
        sig = "C12:match:%s:%s" % (ctxname, c["pat"][0])
        if r["status"] == "parse_error":
            if ctx is not None:
                ctx.exclude("pattern form not accepted by the parser in this context: %s" % ctxname)
            continue
        if ctx is not None:
            nt = nfeatures(c["pat"]) >= 2 or c.get("mutated", False)
            ctx.count(src, nt, "match:%s:%s" % (ctxname, want[0]))
            if nt:
                ctx.sample({"src": src, "expected": want[0]})
        if r["status"] == "panic":
            fails.append(Fail(sig + ":panic", "%s panicked: %s" % (src, r["panic"]), index=i))
            continue
        if want[0] == "ok":
            if r["status"] != "ok" or r["value"] == {"s": "nomatch"}:
                fails.append(Fail(sig + ":should_match", "%s: the pattern matches (bindings %s) but got %s"
                                  % (src, mcanon(want[1]), r.get("value") or r.get("msg")), index=i))
            elif norm(r["value"]) != mcanon(want[1]):
                fails.append(Fail(sig + ":bindings", "%s bound %s, expected %s" % (src, norm(r["value"]), mcanon(want[1])), index=i))
        else:
            if ctxname == "switch":
                ok = r["status"] == "ok" and r["value"] == {"s": "nomatch"}
            else:
                ok = r["status"] == "err"
            if not ok:
                fails.append(Fail(sig + ":should_not_match", "%s: the pattern does not match this value, but got %s" % (src, r.get("value", r["status"])), index=i))
    return fails


# ---- switch with several arms ---------------------------------------------------------------------------------

def check_switch(nl, cases, ctx=None):
    srcs, wants = [], []
    for c in cases:
        v = from_j(c["val"])
        arms = c["arms"]
        want = ("err",)
        for k, p in enumerate(arms):
            try:
                match(p, v, {})
                want = ("ok", k)
                break
            except NoMatch:
                continue
        srcs.append("switch (%s) %s" % (render(v), " ".join("case %s -> %d" % (ppat(p, top=True), k) for k, p in enumerate(arms))))
        wants.append(want)
    sid = nl.open()
    try:
        nl.run(["struct Foo(fa, fb)"], sid=sid)
        results = nl.run(srcs, sid=sid, fuel=200_000, stop_on_panic=False)
    finally:
        nl.close_session(sid)
    fails = []
    for i, (src, want, r) in enumerate(zip(srcs, wants, results)):
        if r["status"] == "parse_error":
            raise GeneratorBug("does not parse: %s" % src)
        if ctx is not None:
            ctx.count(src, len(cases[i]["arms"]) >= 2, "switch:%s" % want[0])
        if want[0] == "ok":
            if r["status"] != "ok" or norm(r["value"]) != {"i": str(want[1])}:
                fails.append(Fail("C12:switch:wrong_arm", "%s ran %s, the first matching arm is %d" % (src, r.get("value", r.get("msg")), want[1]), index=i))
        elif r["status"] != "err":
            fails.append(Fail("C12:switch:should_raise", "%s: no arm matches, expected an error, got %s" % (src, r.get("value")), index=i))
    return fails


# ---- typed variable histories -----------------------------------------------------------------------------------

VALUES = [5, 0, -3, 4, "s", "", [1], [], 1.5, Fraction(1, 2), None, Inst("Foo", [1, 2]), NDict([(1, 2)]), Vec([1, 2]), StreamV(), bytes([1, 2]), [1, 2, 3]]


def vsrc(v):
    if isinstance(v, StreamV):
        return "(1 to 3)"
    return render(v)


def check_typed(nl, case, ctx=None):
    """case: {T: type name, init: value index, steps: [[kind, value index, ...]]}"""
    T = case["T"]
    init = VALUES[case["init"]]
    if not is_type(T, init):
        # declaration must be refused
        r = nl.run(["struct Foo(fa, fb)", "x: %s = %s" % (TSRC.get(T, T), vsrc(init))], fuel=100_000)[-1]
        if ctx is not None:
            ctx.count("decl|%s|%s" % (T, vsrc(init)), True, "typed:decl_refused")
        if r["status"] != "err":
            return Fail("C12:typed:decl:%s" % T, "x: %s = %s was accepted although the value is not of that type" % (T, vsrc(init)))
        return None
    steps = ["struct Foo(fa, fb)", "x: %s = %s" % (TSRC.get(T, T), vsrc(init)), "y := 0", "z: anything = 0"]
    model = init
    plan = []
    for st_ in case["steps"]:
        kind, v = st_[0], VALUES[st_[1]]
        if kind == "assign":
            src, new = "x = %s" % vsrc(v), v
        elif kind == "every":
            src, new = "every x, z = %s" % vsrc(v), v
        elif kind == "swap":
            src, new = "y = %s; swap x, y" % vsrc(v), v
        elif kind == "destructure":
            src, new = "x, y = %s, 1" % vsrc(v), v
        elif kind == "destructure_list":
            src, new = "[y, x] = [1, %s]" % vsrc(v), v
        elif kind == "opassign_const":
            src, new = "x .= (\\t -> %s)" % vsrc(v), v
        elif kind in ("index_assign", "index_opassign", "every_slice"):
            # writes through an index keep the variable but may change the kind of its value (a stream is forced to a
            # list): only the invariant after completion is judged, not the accept/refuse decision
            src = {"index_assign": "x[0] = %s" % vsrc(v), "index_opassign": "x[0] += 1", "every_slice": "every x[0:2] = %s" % vsrc(v)}[kind]
            new = "INDEX"
        elif kind == "opassign_add":
            if isinstance(model, int) and isinstance(v, (int, float, Fraction)) and not isinstance(v, bool):
                src, new = "x += %s" % vsrc(v), model + v
            elif isinstance(model, list):
                src, new = "x append= %s" % vsrc(v), model + [v]
            elif isinstance(model, str):
                src, new = "x $= %s" % vsrc(v), None   # result is a string; value not needed
                new = "S"
            else:
                continue
        else:
            continue
        plan.append((kind, src, new))
        steps.append({"src": "try (%s; \"done\") catch e__ -> \"refused\"" % src})
        steps.append({"src": "[x is %s, try (x is type(x)) catch e__ -> 0, x is anything]" % TSRC.get(T, T)})
        # the model follows the implementation's accept/refuse decision; the checks below judge that decision
        model = None
    results = nl.run(steps, fuel=200_000, timeout=60, stop_on_panic=True)
    for s, r in zip(steps[:4], results[:4]):
        if r["status"] != "ok":
            raise GeneratorBug("typed prelude failed: %s -> %s" % (s, r))
    cur = init
    refused = 0
    hist = []
    for j, (kind, src, new) in enumerate(plan):
        ra, rb = results[4 + 2 * j], results[5 + 2 * j]
        hist.append(src)
        if ra["status"] == "panic":
            return Fail("C12:typed:%s:panic" % kind, "%s panicked: %s" % (src, ra["panic"]))
        done = ra["status"] == "ok" and ra["value"] == {"s": "done"}
        # the invariant is claimed after statements that completed without raising (a refused operator-assignment
        # may leave the README's transient null behind)
        if done and (rb["status"] != "ok" or [x.get("i") for x in rb["value"]["l"]] != ["1", "1", "1"]):
            return Fail("C12:typed:%s:invariant" % kind, "x: %s; after `%s` (%s): [x is %s, x is type(x), x is anything] = %s; history: %s"
                        % (T, src, "completed" if done else "refused", T, rb.get("value"), "; ".join(hist)))
        acceptable = new == "S" and T in ("str", "anything") or (new not in ("S", "INDEX") and is_type(T, new))
        if new != "INDEX" and (kind != "opassign_add" or new != "S"):
            if acceptable and not done:
                return Fail("C12:typed:%s:refused_valid" % kind, "x: %s; `%s` was refused although the new value %r is of type %s; history: %s"
                            % (T, src, new, T, "; ".join(hist)))
            if not acceptable and done:
                return Fail("C12:typed:%s:accepted_invalid" % kind, "x: %s; `%s` completed although the new value %r is not of type %s; history: %s"
                            % (T, src, new, T, "; ".join(hist)))
        if not done:
            refused += 1
    if ctx is not None:
        ctx.count("%s|%s|%s" % (T, vsrc(init), "; ".join(hist)), refused > 0, "typed:%s" % T)
        if refused:
            ctx.sample({"T": T, "init": vsrc(init), "history": hist, "refused": refused})
    return None


# ---- classification table ---------------------------------------------------------------------------------------

CONVERSIONS = ["int", "float", "str", "list", "dict", "rational", "number", "vector", "bytes", "stream", "complex"]


def check_table(nl, case, ctx=None):
    name, src, kind, _ = POOL[case["pi"]]
    exprs = ["(\\v -> [v is type(v), v is anything, type(v) is type])(%s)" % src]
    for T in CONVERSIONS:
        exprs.append("(\\v -> try ([1, %s(v) is %s]) catch e__ -> [0, 0])(%s)" % (T, T, src))
    res = nl.run(exprs, fuel=200_000, stop_on_panic=False)
    fails = []
    r0 = res[0]
    if ctx is not None:
        ctx.count("table|" + src, True, "table:%s" % kind)
    if r0["status"] != "ok" or [x.get("i") for x in r0["value"]["l"]] != ["1", "1", "1"]:
        fails.append(Fail("C12:table:type_of:%s" % kind, "v = %s: [v is type(v), v is anything, type(v) is type] = %s" % (src, r0.get("value", r0.get("msg")))))
    for T, r in zip(CONVERSIONS, res[1:]):
        if T == "int" and name in ("inf", "nan"):
            # floor/ceil/round/trunc deliberately return a non-finite float unchanged (nnum.rs forward_int_coercion)
            if ctx is not None:
                ctx.exclude("int() of a non-finite float")
            continue
        if r["status"] == "ok":
            flags = [x.get("i") for x in r["value"]["l"]]
            if flags == ["1", "0"]:
                fails.append(Fail("C12:table:conversion:%s" % T, "%s(%s) succeeded but the result `is %s` is false" % (T, src, T)))
    return fails


CHECKS = {"match": check_match, "switch": check_switch, "typed": check_typed, "table": check_table}

# ---- generators ------------------------------------------------------------------------------------------------

NAMEPOOL = ["a", "b", "c", "d", "e", "g", "h", "k", "m", "n", "p", "q"]


def to_j(v):
    if v is None:
        return ["null"]
    if isinstance(v, bool):
        raise TypeError
    if isinstance(v, int):
        return ["i", v]
    if isinstance(v, str):
        return ["s", v]
    if isinstance(v, float):
        return ["f", v]
    if isinstance(v, Fraction):
        return ["q", v.numerator, v.denominator]
    if isinstance(v, list):
        return ["l", [to_j(x) for x in v]]
    if isinstance(v, Vec):
        return ["v", list(v.xs)]
    if isinstance(v, Inst):
        return ["foo", to_j(v.fields[0]), to_j(v.fields[1])]
    if isinstance(v, NDict):
        return ["d"]
    raise TypeError(v)


@st.composite
def s_pattern_case(draw):
    counter = [0]

    def fresh():
        counter[0] += 1
        return "v%d" % counter[0]

    def anyval(d):
        k = draw(st.integers(0, 9 if d > 0 else 6))
        if k <= 2:
            return draw(st.integers(-2, 9))
        if k == 3:
            return draw(st.sampled_from(["", "s", "ab"]))
        if k == 4:
            return None
        if k == 5:
            return draw(st.sampled_from([1.5, Fraction(3, 4), Fraction(-1, 2)]))
        if k == 6:
            return draw(st.integers(0, 3))
        if k == 7:
            return Inst("Foo", [anyval(d - 1), anyval(d - 1)])
        return [anyval(d - 1) for _ in range(draw(st.integers(0, 3)))]

    def gen(d, allow_lit=True):
        """-> (pattern, matching value)"""
        opts = ["n", "n", "w"]
        if allow_lit:
            opts += ["i", "s", "null"]
        if d > 0:
            opts += ["seq", "seq", "seq", "or", "and", "ann", "ann", "struct", "cons", "snoc", "neg", "div", "cons_chain", "snoc_chain"]
            if allow_lit:
                opts += ["plus", "plusl", "between"]
        k = draw(st.sampled_from(opts))
        if k == "n":
            return ["n", fresh()], anyval(1)
        if k == "w":
            return ["w"], anyval(1)
        if k == "i":
            x = draw(st.integers(0, 4))
            return ["i", x], x
        if k == "s":
            x = draw(st.sampled_from(["s", "", "ab"]))
            return ["s", x], x
        if k == "null":
            return ["null"], None
        if k == "seq":
            n = draw(st.integers(1, 4))
            items, vals = [], []
            shape = draw(st.sampled_from(["plain", "plain", "splat", "default", "splat_default"]))
            for _ in range(n):
                p, v = gen(d - 1, allow_lit)
                items.append(p)
                vals.append(v)
            if shape == "splat":
                pos = draw(st.integers(0, len(items)))
                items.insert(pos, ["splat", fresh()])
                extra = [anyval(0) for _ in range(draw(st.integers(0, 2)))]
                vals = vals[:pos] + extra + vals[pos:]
            elif shape == "default":
                nd = draw(st.integers(1, 2))
                given = draw(st.integers(0, nd))
                for j in range(nd):
                    items.append(["def", fresh(), draw(st.integers(5, 9))])
                    if j < given:
                        vals.append(draw(st.integers(0, 3)))
            elif shape == "splat_default":
                # one splat anywhere (also between the plain items and the defaults, or after them) plus trailing defaults;
                # the value has between (plain count) and (plain + defaults + 2) items
                nd = draw(st.integers(1, 2))
                nplain = len(items)
                pos = draw(st.integers(0, nplain + nd))
                for j in range(nd):
                    items.append(["def", fresh(), draw(st.integers(5, 9))])
                items.insert(pos, ["splat", fresh()])
                vals = vals + [draw(st.integers(0, 3)) for _ in range(draw(st.integers(0, nd + 2)))]
            return ["seq", items], vals
        if k == "or":
            how = draw(st.sampled_from(["lits", "types", "swap"])) if allow_lit else "types"
            if how == "lits":
                a_, b_ = draw(st.integers(0, 4)), draw(st.integers(0, 4))
                return ["or", ["i", a_], ["i", b_]], draw(st.sampled_from([a_, b_]))
            if how == "types":
                x = fresh()
                t1, t2 = draw(st.sampled_from(["int", "str", "list"])), draw(st.sampled_from(["int", "str", "float", "nulltype"]))
                v = {"int": 3, "str": "s", "list": [1], "float": 1.5, "nulltype": None}[draw(st.sampled_from([t1, t2]))]
                return ["or", ["ann", ["n", x], t1], ["ann", ["n", x], t2]], v
            x = fresh()
            lit = draw(st.integers(0, 3))
            other = draw(st.integers(4, 9))
            first = draw(st.booleans())
            return ["or", ["seq", [["n", x], ["i", lit]]], ["seq", [["i", lit], ["n", x]]]], ([other, lit] if first else [lit, other])
        if k == "and":
            p, v = gen(d - 1, allow_lit)
            return ["and", p, ["n", fresh()]], v
        if k == "ann":
            # vector / dict scrutinees are left to the typed histories: operator patterns vectorise over vectors and
            # sequence patterns iterate dict keys, which this matcher does not model
            T = draw(st.sampled_from([t_ for t_ in TYPES if t_ not in ("vector", "dict")]))
            v = {"int": 4, "str": "s", "list": [1, 2], "float": 1.5, "rational": Fraction(1, 2), "number": 2, "anything": "x", "nulltype": None,
                 "dict": NDict([(1, 2)]), "vector": Vec([1, 2]), "Foo": Inst("Foo", [1, 2]), "sat_even": 4, "sat_pos": 3, "sat_gt3": 5, "sat_self": [0]}[T]
            return ["ann", ["n", fresh()], T], v
        if k == "struct":
            p1, v1 = gen(d - 1, allow_lit)
            p2, v2 = gen(d - 1, allow_lit)
            return ["struct", [p1, p2]], Inst("Foo", [v1, v2])
        if k == "cons":
            p1, v1 = gen(d - 1, allow_lit)
            return ["cons", p1, ["n", fresh()]], [v1] + [anyval(0) for _ in range(draw(st.integers(0, 2)))]
        if k in ("cons_chain", "snoc_chain"):
            n = draw(st.integers(2, 3))
            ps, vs = [], []
            for _ in range(n):
                q, w = gen(0, allow_lit)
                ps.append(q)
                vs.append(w)
            rest = [anyval(0) for _ in range(draw(st.integers(0, 2)))]
            if k == "cons_chain":
                return ["cons_chain", ps, fresh()], vs + rest
            return ["snoc_chain", fresh(), ps], rest + vs
        if k == "snoc":
            p2, v2 = gen(d - 1, allow_lit)
            return ["snoc", ["n", fresh()], p2], [anyval(0) for _ in range(draw(st.integers(0, 2)))] + [v2]
        if k in ("plus", "plusl"):
            kk = draw(st.integers(0, 3))
            return [k, fresh(), kk], kk + draw(st.integers(0, 5))
        if k == "neg":
            return ["neg", fresh()], draw(st.integers(-4, 4))
        if k == "div":
            return ["div", fresh(), fresh()], draw(st.sampled_from([Fraction(3, 4), Fraction(-1, 2), 5, Fraction(6, 1)]))
        if k == "between":
            lo = draw(st.integers(0, 3))
            o1, o2 = draw(st.sampled_from(["<", "<="])), draw(st.sampled_from(["<", "<="]))
            # each link of the chain has its own operator; values sit on and next to the bounds
            first = lo + (1 if o1 == "<" else 0)
            last = lo + 4 - (1 if o2 == "<" else 0)
            v = draw(st.sampled_from([first, last, first, last, lo + 2]))
            return ["between", lo, draw(st.sampled_from([None, fresh()])), lo + 4, o1, o2], v
        raise ValueError(k)

    def mutate(v):
        """miss by one feature"""
        how = draw(st.integers(0, 5))
        if isinstance(v, list):
            if how == 0 and v:
                return v[:-1]
            if how == 1:
                return v + [7]
            if how == 2 and v:
                i = draw(st.integers(0, len(v) - 1))
                return v[:i] + [mutate(v[i])] + v[i + 1:]
            if how == 3:
                return "ab"
            return 5
        if isinstance(v, Inst):
            if how < 3:
                return Inst("Foo", [mutate(v.fields[0]), v.fields[1]])
            return [v.fields[0], v.fields[1]]
        if isinstance(v, int):
            return draw(st.sampled_from([v + 1, v - 1, -v, "s", float(v), None, [v], v + 10]))
        if isinstance(v, str):
            return draw(st.sampled_from([v + "x", 0, None, [v]]))
        if v is None:
            return 0
        if isinstance(v, Fraction):
            return draw(st.sampled_from([float(v), "s", v + 1]))
        return draw(st.sampled_from([3, "s", None]))

    ctxname = draw(st.sampled_from(CONTEXTS))
    p, v = gen(draw(st.integers(1, 3)), allow_lit=ctxname not in ("lambda", "for"))
    mutated = draw(st.integers(0, 9)) < 4
    if mutated:
        v = mutate(v)
    return {"pat": p, "val": to_j(v), "ctx": ctxname, "mutated": mutated}


@st.composite
def s_switch_case(draw):
    arms = []
    vals = []
    for _ in range(draw(st.integers(2, 5))):
        c = draw(s_pattern_case())
        arms.append(c["pat"])
        vals.append(c["val"])
    return {"arms": arms, "val": draw(st.sampled_from(vals))}


def worker(ctx):
    for pi in range(len(POOL)):
        if pi % ctx.nworkers == ctx.index:
            ctx.check("table", {"pi": pi})
    ctx.hyp(st.lists(s_pattern_case(), min_size=24, max_size=24), lambda b: ctx.check("match", b), ctx.share(ctx.scale(1600, 50000)), label="c12m")
    ctx.hyp(st.lists(s_switch_case(), min_size=8, max_size=8), lambda b: ctx.check("switch", b), ctx.share(ctx.scale(500, 15000)), label="c12s")
    step = st.tuples(st.sampled_from(["assign", "assign", "every", "swap", "destructure", "destructure_list", "opassign_const", "opassign_add",
                                      "index_assign", "index_opassign", "every_slice"]),
                     st.integers(0, len(VALUES) - 1)).map(list)
    typed = st.builds(lambda T, i, steps: {"T": T, "init": i, "steps": steps}, st.sampled_from(TYPED_TYPES), st.integers(0, len(VALUES) - 1),
                      st.lists(step, min_size=2, max_size=8))
    ctx.hyp(typed, lambda c: ctx.check("typed", c), ctx.share(ctx.scale(2500, 60000)), label="c12t")
