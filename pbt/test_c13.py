"""C13 - the sequence library matches its executable specification.

seqspec: one obvious Python definition per function, written from the BUILTINS.md one-liners.
Validity predicates where the documentation admits many outputs (group_all as a set of groups).
"""
import functools
import itertools

from hypothesis import strategies as st

from .core import Fail, GeneratorBug
from .values import NDict, Vec, from_canon, key_eq, mcanon, norm, render

PID = "C13"
LEVEL = "exploration"
RULE = ("Hypothesis cases (function, input kind in {list, vector, bytes, string, stream}, input of length 0..24 over a small "
        "alphabet with repeats, small parameters, callback from a fixed family); non-trivial = empty input, non-list kind, "
        "duplicates under sort/unique/group, parameter >= len, or a throwing callback; distinct by source text")
ASSUMPTIONS = [
    "elements are ints 0..9 (characters a..j for strings); callbacks are pure except the designated throwing one",
    "partition/flat_map/map results are compared as lists of elements (the result kind for non-list inputs is not asserted)",
    "split with an empty separator and whitespace other than space/tab/LF are not generated (Rust and Python differ, docs silent)",
    "group_all is compared as a set of groups, each group in input order",
    "min / max with a comparator return the first of several tied extrema (what the one-line fold definition gives and what "
    "the plain and variadic forms do; observed, the builtin's help text is silent)",
]


class Err(Exception):
    pass


# ---- callbacks ------------------------------------------------------------------------------------------
PRED = {"even": ("even", lambda x: x % 2 == 0), "gt2": ("(>2)", lambda x: x > 2), "mod3": ("(\\t -> t % 3 == 0)", lambda x: x % 3 == 0),
        "never": ("(\\t -> 0)", lambda x: False), "always": ("(\\t -> 1)", lambda x: True)}
MAPF = {"dbl": ("(*2)", lambda x: x * 2), "mod3": ("(\\t -> t % 3)", lambda x: x % 3), "wrap": ("(\\t -> [t, t])", lambda x: [x, x]),
        "const": ("(\\t -> 7)", lambda x: 7)}
BINF = {"add": ("+", lambda a, b: a + b), "max": ("max", lambda a, b: max(a, b)), "cat": ("(\\p, q -> p * 10 + q)", lambda a, b: a * 10 + b),
        "sub": ("(-)", lambda a, b: a - b)}
CMPF = {"asc": ("<=>", lambda a, b: (a > b) - (a < b)), "desc": (">=<", lambda a, b: (a < b) - (a > b)),
        "mod3": ("(\\p, q -> (p % 3) <=> (q % 3))", lambda a, b: (a % 3 > b % 3) - (a % 3 < b % 3))}
KEYF = {"mod3": ("(\\t -> t % 3)", lambda x: x % 3), "neg": ("(\\t -> 0 - t)", lambda x: -x), "half": ("(// 2)", lambda x: x // 2), "id": ("id", lambda x: x)}
THROW = ("(\\t -> if (t == 2) throw \"boom\" else t)", None)
REL = {"succ": ("(\\p, q -> q == p + 1)", lambda a, b: b == a + 1), "lt": ("<", lambda a, b: a < b), "le": ("<=", lambda a, b: a <= b),
       "eq": ("==", lambda a, b: a == b), "samepar": ("(\\p, q -> p % 2 == q % 2)", lambda a, b: a % 2 == b % 2)}

# "stream_dropped" = a stream(seq) whose cursor has advanced: only the remaining elements are its contents
KINDS = ["list", "vector", "bytes", "string", "stream", "stream_dropped"]


def ksrc(kind, xs):
    if kind == "list":
        return render(list(xs))
    if kind == "vector":
        return render(Vec(xs))
    if kind == "bytes":
        return render(bytes(xs))
    if kind == "string":
        return render("".join(chr(97 + x) for x in xs))
    if kind == "stream_dropped":
        return "(stream(%s) drop 2)" % render([8, 9] + list(xs))
    return "stream(%s)" % render(list(xs))


def kback(kind, ys):
    """result of the same kind as the input"""
    if kind == "vector":
        return Vec(ys)
    if kind == "bytes":
        return bytes(ys)
    if kind == "string":
        return "".join(chr(97 + y) for y in ys)
    return list(ys)


def kelem(kind, y):
    return chr(97 + y) if kind == "string" else y


def stable_sorted(xs, cmpf):
    return sorted(xs, key=functools.cmp_to_key(cmpf))


def chunks(xs, n):
    return [xs[i:i + n] for i in range(0, len(xs), n)]


def group_adj(xs, rel):
    out = []
    for x in xs:
        if out and rel(out[-1][-1], x):
            out[-1].append(x)
        else:
            out.append([x])
    return out


def fold(xs, f, init=None):
    it = iter(xs)
    if init is None:
        try:
            acc = next(it)
        except StopIteration:
            raise Err("empty fold")
    else:
        acc = init
    for x in it:
        acc = f(acc, x)
    return acc


def scan(xs, f, init=None):
    out = []
    it = iter(xs)
    if init is None:
        try:
            acc = next(it)
        except StopIteration:
            return []
    else:
        acc = init
    out.append(acc)
    for x in it:
        acc = f(acc, x)
        out.append(acc)
    return out


def ziplongest_reduce(seqs, f):
    n = max((len(s) for s in seqs), default=0)
    out = []
    for i in range(n):
        batch = [s[i] for s in seqs if i < len(s)]
        out.append(fold(batch, f))
    return out


def transpose(rows):
    n = max((len(r) for r in rows), default=0)
    return [[r[i] for r in rows if i < len(r)] for i in range(n)]


# ---- specification table: name -> (kinds, build(case) -> (expr, expected, mode)) --------------------------
# case: {"fn", "kind", "xs", "ys", "n", "cb"}; mode: "eq" | "groups" | "out"

def spec(c):
    fn, kind, xs, ys, n, cb = c["fn"], c["kind"], c["xs"], c.get("ys", []), c.get("n", 0), c.get("cb")
    S = ksrc(kind, xs)
    same = lambda zs: kback(kind, zs)        # noqa: E731
    el = lambda z: kelem(kind, z)            # noqa: E731
    lst = lambda zs: [el(z) for z in zs]     # noqa: E731
    intlike = kind != "string"
    if fn == "map":
        src, f = MAPF[cb]
        return "%s map %s" % (S, src), [f(x) for x in xs], "eq"
    if fn == "map_throw":
        return "%s map %s" % (S, THROW[0]), (Err if 2 in xs else list(xs)), "eq"
    if fn == "filter":
        src, p = PRED[cb]
        return "%s filter %s" % (S, src), same([x for x in xs if p(x)]), "eq"
    if fn == "filter_throw":
        return "%s filter %s" % (S, THROW[0]), (Err if 2 in xs else same([x for x in xs if x])), "eq"
    if fn == "reject":
        src, p = PRED[cb]
        return "%s reject %s" % (S, src), same([x for x in xs if not p(x)]), "eq"
    if fn == "partition":
        src, p = PRED[cb]
        return "%s partition %s then (\\t -> t map list)" % (S, src), [[x for x in xs if p(x)], [x for x in xs if not p(x)]], "eq"
    if fn == "flat_map":
        return "%s flat_map (\\t -> [t, t + 1])" % S, [y for x in xs for y in (x, x + 1)], "eq"
    if fn == "flatten":
        rows = chunks(xs, max(1, n))
        return "flatten(%s)" % render(rows), list(xs), "eq"
    if fn == "each":
        return "%s each print" % S, "".join("%s\n" % x for x in xs), "out"
    if fn == "count":
        if cb == "truthy":
            return "count(%s)" % S, sum(1 for x in xs if x), "eq"
        if cb == "value":
            return "%s count %d" % (S, n), sum(1 for x in xs if x == n), "eq"
        src, p = PRED[cb]
        return "%s count %s" % (S, src), sum(1 for x in xs if p(x)), "eq"
    if fn in ("any", "all"):
        agg = any if fn == "any" else all
        if cb == "truthy":
            return "%s(%s)" % (fn, S), int(agg(bool(x) for x in xs)), "eq"
        src, p = PRED[cb]
        return "%s %s %s" % (S, fn, src), int(agg(p(x) for x in xs)), "eq"
    if fn in ("find", "find?", "locate", "locate?"):
        src, p = PRED[cb]
        hits = [(i, x) for i, x in enumerate(xs) if p(x)]
        if not hits:
            exp = None if fn.endswith("?") else Err
        else:
            exp = hits[0][1] if fn.startswith("find") else hits[0][0]
        return "%s %s %s" % (S, fn, src), exp, "eq"
    if fn == "locate_value":
        exp = xs.index(n) if n in xs else Err
        return "%s locate %d" % (S, n), exp, "eq"
    if fn == "take_while":
        src, p = PRED[cb]
        return "%s take %s" % (S, src), same(list(itertools.takewhile(p, xs))), "eq"
    if fn == "drop_while":
        src, p = PRED[cb]
        return "ls(%s drop %s)" % (S, src), same(list(itertools.dropwhile(p, xs))), "eq"
    if fn == "zip":
        return "%s zip %s" % (S, render(ys)), [[x, y] for x, y in zip(xs, ys)], "eq"
    if fn == "zip3":
        zs = [x + 1 for x in ys]
        return "%s zip %s zip %s" % (S, render(ys), render(zs)), [[x, y, z] for x, y, z in zip(xs, ys, zs)], "eq"
    if fn == "zip_with":
        src, f = BINF[cb]
        return "%s zip %s with %s" % (S, render(ys), src), [f(x, y) for x, y in zip(xs, ys)], "eq"
    if fn == "ziplongest":
        return "%s ziplongest %s" % (S, render(ys)), [[s[i] for s in (xs, ys) if i < len(s)] for i in range(max(len(xs), len(ys)))], "eq"
    if fn == "ziplongest_with":
        src, f = BINF[cb]
        return "%s ziplongest %s with %s" % (S, render(ys), src), ziplongest_reduce([xs, ys], f), "eq"
    if fn == "ziplongest3_with":
        # three sequences: each index's batch is reduced pairwise from the left, f(f(x1, x2), x3)
        src, f = BINF[cb]
        zs = [(x + y) % 10 for x, y in zip(xs[1:], ys + ys + ys + [0] * 70)]
        return "ziplongest(%s, %s, %s, %s)" % (S, render(ys), render(zs), src), ziplongest_reduce([xs, ys, zs], f), "eq"
    if fn == "zip3_with":
        src, f = BINF[cb]
        zs = [(x * 3 + 1) % 10 for x in xs[1:]]
        # unlike ziplongest, zip hands the whole tuple to the function in ONE call: f(a, b, c)
        trip = list(zip(xs, ys, zs))
        if cb == "max":
            exp = [max(t) for t in trip]
        else:
            exp = Err if trip else []      # + - and the two-parameter lambda refuse three arguments
        return "zip(%s, %s, %s, %s)" % (S, render(ys), render(zs), src), exp, "eq"
    if fn == "pairwise":
        src, f = BINF[cb]
        return "%s pairwise %s" % (S, src), [f(a, b) for a, b in zip(xs, xs[1:])], "eq"
    if fn == "transpose":
        rows = chunks(xs, max(1, n))
        return "transpose(%s)" % render(rows), transpose(rows), "eq"
    if fn == "enumerate":
        return "enumerate(%s)" % S, [[i, el(x)] for i, x in enumerate(xs)], "eq"
    if fn == "fold":
        src, f = BINF[cb]
        try:
            exp = fold(xs, f)
        except Err:
            exp = Err
        return "%s fold %s" % (S, src), exp, "eq"
    if fn == "fold_from":
        src, f = BINF[cb]
        return "%s fold %s from %d" % (S, src, n), fold(xs, f, n), "eq"
    if fn == "scan":
        src, f = BINF[cb]
        return "%s scan %s" % (S, src), scan(xs, f), "eq"
    if fn == "scan_from":
        src, f = BINF[cb]
        return "%s scan %s from %d" % (S, src, n), scan(xs, f, n), "eq"
    if fn == "sum":
        return "sum(%s)" % S, sum(xs), "eq"
    if fn == "product":
        p = 1
        for x in xs:
            p *= x
        return "product(%s)" % S, p, "eq"
    if fn in ("min", "max"):
        return "%s(%s)" % (fn, S), (el((min if fn == "min" else max)(xs)) if xs else Err), "eq"
    if fn in ("min_cmp", "max_cmp"):
        # comparator form over [value, position] pairs: the straightforward fold (replace the running best only when the
        # candidate compares strictly better) returns the FIRST of several tied extrema, like the plain forms do
        src, f = CMPF[cb]
        pairs = [[x, i] for i, x in enumerate(xs)]
        if not pairs:
            return "%s(%s, \\p, q -> %s(p[0], q[0]))" % (fn[:3], render(pairs), src), Err, "eq"
        best = pairs[0]
        for p_ in pairs[1:]:
            c_ = f(p_[0], best[0])
            if (c_ > 0) if fn == "max_cmp" else (c_ < 0):
                best = p_
        return "%s(%s, \\p, q -> %s(p[0], q[0]))" % (fn[:3], render(pairs), src), best, "eq"
    if fn == "sort":
        return "sort(%s)" % S, same(sorted(xs)), "eq"
    if fn == "sort_cmp":
        src, f = CMPF[cb]
        return "%s sort %s" % (S, src), same(stable_sorted(xs, f)), "eq"
    if fn == "sort_on":
        src, f = KEYF[cb]
        # pairs [value, position] so that stability is visible
        pairs = [[x, i] for i, x in enumerate(xs)]
        return "%s sort_on (\\t -> %s(t[0]))" % (render(pairs), src), sorted(pairs, key=lambda p: f(p[0])), "eq"
    if fn == "sort_pairs_stable":
        src, f = CMPF[cb]
        pairs = [[x, i] for i, x in enumerate(xs)]
        return "%s sort (\\p, q -> %s(p[0], q[0]))" % (render(pairs), src), stable_sorted(pairs, lambda p, q: f(p[0], q[0])), "eq"
    if fn == "reverse":
        return "ls(reverse(%s))" % S, same(list(reversed(xs))), "eq"
    if fn == "unique":
        seen, out = set(), []
        for x in xs:
            if x not in seen:
                seen.add(x)
                out.append(x)
        return "unique(%s)" % S, same(out), "eq"
    if fn == "group":
        return "group(%s)" % S, [same(g) for g in group_adj(xs, lambda a, b: a == b)], "eq"
    if fn == "group_rel":
        src, f = REL[cb]
        return "%s group %s" % (S, src), [same(g) for g in group_adj(xs, f)], "eq"
    if fn == "group_n":
        if n <= 0:
            return "%s group %d" % (S, n), Err, "eq"
        return "%s group %d" % (S, n), [same(g) for g in chunks(xs, n)], "eq"
    if fn == "group'":
        if n <= 0 or len(xs) % n:
            return "%s group' %d" % (S, n), Err, "eq"
        return "%s group' %d" % (S, n), [same(g) for g in chunks(xs, n)], "eq"
    if fn == "group_all":
        src, f = KEYF[cb]
        groups = {}
        for x in xs:
            groups.setdefault(f(x), []).append(el(x))
        return "%s group_all %s" % (render(list(xs)), src), list(groups.values()), "groups"
    if fn == "window":
        if n <= 0:
            return "%s window %d" % (S, n), Err, "eq"
        return "%s window %d" % (S, n), [same(xs[i:i + n]) for i in range(0, len(xs) - n + 1)], "eq"
    if fn == "prefixes":
        return "prefixes(%s)" % S, [same(xs[:i]) for i in range(len(xs) + 1)], "eq"
    if fn == "suffixes":
        return "suffixes(%s)" % S, [same(xs[len(xs) - i:]) for i in range(len(xs) + 1)], "eq"
    if fn == "frequencies":
        d = NDict(default=0, has_default=True)
        for x in xs:
            d.set(el(x), (d.get(el(x)) or 0) + 1)
        return "frequencies(%s)" % S, d, "eq"
    if fn == "++":
        return "%s ++ %s" % (S, ksrc(kind, ys)), same(list(xs) + list(ys)), "eq"
    if fn == ".+":
        return "%d .+ %s" % (n, render(list(xs))), [n] + list(xs), "eq"
    if fn == "+.":
        return "%s +. %d" % (render(list(xs)), n), list(xs) + [n], "eq"
    if fn == "..":
        return "%s .. %d" % (render(list(xs)), n), [list(xs), n], "eq"
    if fn == ".*":
        return "%s .* %d" % (render(list(xs)), n), [list(xs)] * max(0, n), "eq"
    if fn == "*.":
        return "%d *. %s" % (n, render(list(xs))), [list(xs)] * max(0, n), "eq"
    if fn == "**":
        return "%s ** %s" % (render(list(xs)), render(ys)), [[x, y] for x in xs for y in ys], "eq"
    if fn == "**3":
        zs = ys[:2]
        return "%s ** %s ** %s" % (render(list(xs)), render(ys), render(zs)), [[x, y, z] for x in xs for y in ys for z in zs], "eq"
    if fn == "^^":
        k = n % 4
        if not xs:
            raise Skip("empty base")
        if len(xs) ** k > 3000:
            raise Skip("too big")
        return "list(%s ^^ %d)" % (render(list(xs)), k), [list(p) for p in itertools.product(xs, repeat=k)], "eq"
    if fn == "join":
        sep = [",", "", "--"][n % 3]
        return "%s join %s" % (S, render(sep)), sep.join(str(el(x)) for x in xs), "eq"
    if fn == "join_pieces":
        # string and bytes pieces, empty ones included (leading, in the middle, trailing), string and bytes separators
        pieces = ["", "a", "bc", ""]
        if kind == "bytes":
            ps = [pieces[x % 4].encode() for x in xs]
            sep = [b"-", b"", b"ab"][n % 3]
            return "%s join %s" % (render(ps), render(sep)), sep.join(ps), "eq"
        ps = [pieces[x % 4] for x in xs]
        sep = [",", "", "--"][n % 3]
        return "%s join %s" % (render(ps), render(sep)), sep.join(ps), "eq"
    if fn == "split":
        sep = [",", "ab", "a"][n % 3]
        s = "".join("ab,c"[x % 4] for x in xs)
        return "%s split %s" % (render(s), render(sep)), s.split(sep), "eq"
    if fn == "words":
        s = "".join(" a\tb\nc"[x % 6] for x in xs)
        return "words(%s)" % render(s), s.split(), "eq"
    if fn == "lines":
        s = "".join("a\nb \r"[x % 5] for x in xs)     # a carriage return is an ordinary character for `lines`
        parts = s.split("\n")
        if parts and parts[-1] == "":
            parts = parts[:-1]
        return "lines(%s)" % render(s), parts, "eq"
    if fn == "permutations":
        zs = xs[:5]
        return "list(permutations(%s))" % ksrc(kind, zs), [lst(p) for p in itertools.permutations(zs)], "eq"
    if fn == "combinations":
        zs = xs[:7]
        k = n % (len(zs) + 2)
        return "list(combinations(%s, %d))" % (ksrc(kind, zs), k), [lst(p) for p in itertools.combinations(zs, k)], "eq"
    if fn == "subsequences":
        zs = xs[:7]
        m = len(zs)
        return "list(subsequences(%s))" % ksrc(kind, zs), [[el(x) for j, x in enumerate(zs) if (b >> (m - 1 - j)) & 1] for b in range(2 ** m)], "eq"
    raise ValueError(fn)


class Skip(Exception):
    pass


ALLK = KINDS
SEQK = ["list", "vector", "bytes", "string"]
NUMK = ["list", "vector", "bytes", "stream", "stream_dropped"]
# fn -> (allowed kinds, callback family)
TABLE = {
    "map": (NUMK, MAPF), "map_throw": (NUMK, None), "filter": (NUMK, PRED), "filter_throw": (NUMK, None), "reject": (NUMK, PRED),
    "partition": (NUMK, PRED), "flat_map": (NUMK, None), "flatten": (["list"], None), "each": (NUMK, None),
    "count": (NUMK, list(PRED) + ["truthy", "value"]), "any": (NUMK, list(PRED) + ["truthy"]), "all": (NUMK, list(PRED) + ["truthy"]),
    "find": (NUMK, PRED), "find?": (NUMK, PRED), "locate": (NUMK, PRED), "locate?": (NUMK, PRED), "locate_value": (["list", "vector", "bytes"], None),
    "take_while": (NUMK, PRED), "drop_while": (NUMK, PRED), "zip": (NUMK, None), "zip3": (NUMK, None), "zip_with": (NUMK, BINF),
    "ziplongest": (NUMK, None), "ziplongest_with": (NUMK, BINF), "ziplongest3_with": (NUMK, BINF), "zip3_with": (NUMK, BINF), "pairwise": (NUMK, BINF), "transpose": (["list"], None),
    "enumerate": (ALLK, None), "fold": (NUMK, BINF), "fold_from": (NUMK, BINF), "scan": (NUMK, BINF), "scan_from": (NUMK, BINF),
    "sum": (NUMK, None), "product": (NUMK, None), "min": (ALLK, None), "max": (ALLK, None), "min_cmp": (["list"], CMPF), "max_cmp": (["list"], CMPF), "sort": (SEQK + ["stream", "stream_dropped"], None),
    "sort_cmp": (["list", "vector", "bytes", "stream", "stream_dropped"], CMPF), "sort_on": (["list"], KEYF), "sort_pairs_stable": (["list"], CMPF),
    "reverse": (ALLK, None), "unique": (ALLK, None), "group": (SEQK, None), "group_rel": (["list", "vector", "bytes"], REL),
    "group_n": (SEQK, None), "group'": (SEQK, None), "group_all": (["list"], KEYF), "window": (SEQK, None), "prefixes": (SEQK, None),
    "suffixes": (SEQK, None), "frequencies": (ALLK, None), "++": (["list", "vector", "bytes"], None), ".+": (["list"], None),
    "+.": (["list"], None), "..": (["list"], None), ".*": (["list"], None), "*.": (["list"], None), "**": (["list"], None),
    "**3": (["list"], None), "^^": (["list"], None), "join": (ALLK, None), "join_pieces": (["list", "bytes"], None), "split": (["list"], None), "words": (["list"], None),
    "lines": (["list"], None), "permutations": (SEQK, None), "combinations": (SEQK, None), "subsequences": (SEQK, None),
}
PRELUDE = ["ls := \\v -> if (v is stream) list(v) else v"]


def nontrivial(c):
    xs = c["xs"]
    return (not xs or c["kind"] != "list" or (len(set(xs)) < len(xs) and c["fn"] in ("sort", "sort_cmp", "sort_on", "sort_pairs_stable", "unique", "group", "group_all", "frequencies", "min_cmp", "max_cmp"))
            or c.get("n", 0) >= len(xs) or c["fn"].endswith("_throw"))


def check_batch(nl, cases, ctx=None):
    items = []
    for i, c in enumerate(cases):
        try:
            expr, exp, mode = spec(c)
        except Skip as e:
            if ctx is not None:
                ctx.exclude(str(e))
            continue
        items.append((i, c, expr, exp, mode))
    if not items:
        return None
    results = nl.run(PRELUDE + [it[2] for it in items], fuel=2_000_000, stop_on_panic=False, timeout=90)[len(PRELUDE):]
    fails = []
    for (i, c, expr, exp, mode), r in zip(items, results):
        sig = "C13:%s:%s" % (c["fn"], c["kind"])
        f = None
        if r["status"] == "parse_error":
            raise GeneratorBug("does not parse: %s" % expr)
        if exp is Err:
            if r["status"] != "err":
                f = Fail(sig + ":should_raise", "%s: the definition raises here, got %s" % (expr, r.get("value", r["status"])))
        elif r["status"] != "ok":
            f = Fail(sig + ":" + r["status"], "%s: expected %s, got %s" % (expr, mcanon(exp) if mode != "out" else exp, {k: r.get(k) for k in ("status", "msg", "panic")}))
        elif mode == "out":
            if r["output"] != exp:
                f = Fail(sig + ":output", "%s printed %r, expected %r" % (expr, r["output"], exp))
        elif mode == "groups":
            got = from_canon(r["value"])
            ok = isinstance(got, list) and sorted(map(str, (mcanon(g) for g in got))) == sorted(str(mcanon(g)) for g in exp)
            if not ok:
                f = Fail(sig + ":wrong", "%s = %s, expected the groups %s in any order" % (expr, norm(r["value"]), mcanon(exp)))
        else:
            got = norm(r["value"])
            if got != mcanon(exp):
                f = Fail(sig + ":wrong", "%s = %s, reference definition gives %s" % (expr, got, mcanon(exp)))
        if ctx is not None:
            nt = nontrivial(c)
            ctx.count(expr, nt, "%s:%s" % (c["fn"], c["kind"]))
            if nt:
                ctx.sample({"expr": expr})
        if f is not None:
            f.index = i
            fails.append(f)
    return fails


CHECKS = {"batch": check_batch}


def s_case():
    def mk(fn, ki, xs, ys, n, cbi):
        kinds, fam = TABLE[fn]
        c = {"fn": fn, "kind": kinds[ki % len(kinds)], "xs": xs, "ys": ys, "n": n}
        if fam is not None:
            names = list(fam)
            c["cb"] = names[cbi % len(names)]
        return c
    xs = st.one_of(st.lists(st.integers(0, 9), max_size=8), st.lists(st.integers(0, 3), max_size=8), st.lists(st.integers(0, 9), min_size=20, max_size=64),
                   st.lists(st.integers(0, 2), min_size=21, max_size=40))
    ys = st.lists(st.integers(0, 9), max_size=5)
    return st.builds(mk, st.sampled_from(sorted(TABLE)), st.integers(0, 7), xs, ys, st.integers(0, 10), st.integers(0, 7))


def worker(ctx):
    ctx.hyp(st.lists(s_case(), min_size=24, max_size=24), lambda b: ctx.check("batch", b), ctx.share(ctx.scale(2400, 60000)), label="c13")
