"""C09 - dictionaries are finite maps keyed by value equality.

Model: association list over equivalence classes of the model's == (exact numeric comparison across
int/rational/float/complex, NaN equal to itself, element-wise on lists/vectors, by entries on dicts).
No hashing in the model, so a hash/equality disagreement in the interpreter cannot be mirrored.
After every operation: len, membership of EVERY pool key, lookup of every pool key, and the
contents (keys compared up to the model's equality: which representative is stored is not fixed).
"""
import copy
import math
from fractions import Fraction

from hypothesis import strategies as st

from .core import Fail, GeneratorBug
from .hist import R
from .values import NDict, Vec, canon, from_canon, key_eq, mcanon, norm, render

PID = "C09"
LEVEL = "exploration"
RULE = ("stateful histories of 8-40 dictionary operations over a pool of %d keys with many distinct-but-equal "
        "representatives; after every operation len/in/lookup of every pool key and the contents are compared with an "
        "association-list model; non-trivial = some operation addressed an existing entry through a key that is equal to "
        "but written differently from the one that created it; distinct by the statement list")
ASSUMPTIONS = [
    "which representative of an equality class is stored as the key is not specified and not compared",
    "values are compared exactly; dict == compares values with ==",
    "dictionary iteration order never enters: keys/values/items are compared as multisets",
]

# (model value, source)
POOL = [
    (1, "1"), (1.0, "1.0"), (Fraction(1), "(2/2)"), (complex(1, 0), "(1+0i)"), (1, "(%d - %d)" % (2 ** 70 + 1, 2 ** 70)),
    (2 ** 64, "2^64"), (2.0 ** 64, "2.0^64"), (Fraction(2 ** 64), "(2^64/1)"),
    (2 ** 63, "2^63"), (2.0 ** 63, "2.0^63"), (-(2 ** 63), "(0-2^63)"), (-(2.0 ** 63), "(0.0-2.0^63)"),
    (2 ** 53 + 1, "(2^53+1)"), (2.0 ** 53, "2.0^53"), (2 ** 53, "2^53"),
    (Fraction(1, 2), "(1/2)"), (0.5, "0.5"), (complex(0.5, 0), "(0.5+0i)"),
    (0, "0"), (0.0, "0.0"), (-0.0, "(-(0.0))"), (Fraction(0), "(0/1)"), (complex(0, 0), "(0i)"),
    (math.nan, "(0.0/0.0)"), (-math.nan, "(-(0.0/0.0))"),
    ("a", '"a"'), ("", '""'), (None, "null"), (bytes([1]), "B[1]"), (Vec([1]), "V(1)"), (Vec([1.0]), "V(1.0)"),
    ([1], "[1]"), ([1.0], "[1.0]"), ([Fraction(1)], "[3/3]"), ([[1], Fraction(1)], "[[1], 2/2]"), ([[1.0], 1], "[[1.0], 1]"),
    (NDict([(1, 2)]), "{1: 2}"), (NDict([(1.0, 2)]), "{1.0: 2}"), (NDict([(1, 2.0)]), "{1: 2.0}"),
    # negative values in both integer representations and at other levels; a dyadic rational with a 53-bit numerator and its float;
    # a complex number whose real part is the double nearest to an integer it does not equal
    (-8, "(0-8)"), (-8, "(2^70 - 2^70 - 8)"), (-8.0, "(0.0-8.0)"), (Fraction(-8), "((0-16)/2)"), (-1, "(0-1)"), (-1, "(2^70 - 2^70 - 1)"),
    (0.3, "0.3"), (Fraction(0.3), "(5404319552844595/18014398509481984)"), (complex(2.0 ** 53, 0), "(2.0^53+0i)"), (complex(1 / 3, 0), "(1.0/3.0+0i)"),
    # NaN equals itself as a key also inside vectors and lists
    (Vec([math.nan, 1]), "V(0.0/0.0, 1)"), (Vec([-math.nan, 1.0]), "V(-(0.0/0.0), 1.0)"), ([math.nan], "[0.0/0.0]"), ([Vec([math.nan])], "[V(0.0/0.0)]"),
    # == on dicts ignores the default value, so these address the same entries as the ones above
    (NDict([(1, 2)], default=0, has_default=True), "{:0, 1: 2}"), ([NDict([(1, 2)])], "[{1: 2}]"),
    ([NDict([(1.0, 2)], default=5, has_default=True)], "[{:5, 1.0: 2}]"),
    (2, "2"), (2.0, "2.0"), (3, "3"), ("b", '"b"'), ([1, 2], "[1, 2]"),
    (Fraction(1, 3), "(1/3)"), (1 / 3, "(1.0/3.0)"), (10 ** 30, "10^30"), (1e30, "1e30"), (complex(1, 1), "(1+1i)"),
    ([], "[]"), ("1", '"1"'),
]
NK = len(POOL)
RULE = RULE % NK
CLASS = []  # class id per pool index
for _i, (_v, _) in enumerate(POOL):
    for _j in range(_i):
        if key_eq(POOL[_j][0], _v):
            CLASS.append(CLASS[_j])
            break
    else:
        CLASS.append(_i)

PRELUDE = ["k%d := %s" % (i, s) for i, (_, s) in enumerate(POOL)] + ["d := {}", "tmp := null"]


def val_eq_loose(a, b):
    """model of == on values stored in dicts (numbers across levels)"""
    return key_eq(a, b) if not (isinstance(a, float) and math.isnan(a)) else False


class DModel:
    def __init__(self):
        self.d = NDict()
        self.origin = {}   # class id -> pool index that created the entry
        self.nt = False

    def touch(self, ki):
        c = CLASS[ki]
        if self.d.has(POOL[ki][0]):
            if self.origin.get(c) is not None and self.origin[c] != ki:
                self.nt = True
        else:
            self.origin[c] = ki

    def forget(self, ki):
        self.origin.pop(CLASS[ki], None)


def concretize(m, op):
    r = R(op["r"])
    k = op["k"]
    d = m.d
    dc = copy.deepcopy

    def key():
        # bias towards keys whose class is already present
        if d.items and r.below(3) == 0:
            present = [i for i in range(NK) if d.has(POOL[i][0])]
            return r.pick(present)
        return r.below(NK)

    def ival():
        return r.below(9) - 2

    if k == "literal":
        n = r.below(6)
        ks = [key() for _ in range(n)]
        vs = [ival() for _ in range(n)]
        hasdef = r.below(3) == 0
        dv = r.pick([0, []]) if hasdef else None
        m.d = NDict(default=dv, has_default=hasdef)
        m.origin = {}
        for ki, v in zip(ks, vs):
            m.touch(ki)
            m.d.set(POOL[ki][0], v)
        body = ", ".join(([":%s" % render(dv)] if hasdef else []) + ["k%d: %d" % (ki, v) if v >= 0 else "k%d: (0-%d)" % (ki, -v) for ki, v in zip(ks, vs)])
        return {"src": "d = {%s}" % body, "cls": "literal" + (":dup" if len({CLASS[x] for x in ks}) < len(ks) else "")}
    if k == "set":
        ki, v = key(), ival()
        m.touch(ki)
        d.set(POOL[ki][0], v)
        return {"src": "d[k%d] = %s" % (ki, render(v)), "cls": "set"}
    if k == "setlist":
        ki = key()
        v = [ival() for _ in range(r.below(3))]
        m.touch(ki)
        d.set(POOL[ki][0], v)
        return {"src": "d[k%d] = %s" % (ki, render(v)), "cls": "set"}
    if k == "opassign":
        ki = key()
        kv = POOL[ki][0]
        if d.has(kv):
            old = d.get(kv)
        elif d.has_default:
            old = dc(d.default)
        else:
            return None
        if isinstance(old, int):
            new, src = old + 1, "d[k%d] += 1" % ki
        elif isinstance(old, list):
            new, src = old + [7], "d[k%d] append= 7" % ki
        else:
            return None
        m.touch(ki)
        d.set(kv, new)
        return {"src": src, "cls": "opassign" + (":default" if not d.has(kv) else "")}
    if k == "remove":
        if not d.items:
            return None
        present = [i for i in range(NK) if d.has(POOL[i][0])]
        ki = r.pick(present)
        m.touch(ki)
        res = d.remove(POOL[ki][0])
        m.forget(ki)
        return {"src": "tmp = remove d[k%d]" % ki, "cls": "remove", "tmp": res}
    if k == "addkey":
        ki = key()
        m.touch(ki)
        d.set(POOL[ki][0], None)
        return {"src": "d |.= k%d" % ki, "cls": "|."}
    if k == "delkey":
        ki = key()
        if d.has(POOL[ki][0]):
            m.touch(ki)
            d.remove(POOL[ki][0])
            m.forget(ki)
        return {"src": r.pick(["d -.= k%d", "d = d discard k%d"]) % ki, "cls": "-."}
    if k == "insert":
        ki, v = key(), ival()
        m.touch(ki)
        d.set(POOL[ki][0], v)
        return {"src": r.pick(["d = d insert [k%d, %s]", "d |..= [k%d, %s]"]) % (ki, render(v)), "cls": "insert"}
    if k in ("union", "inter", "minus", "unionplus"):
        n = 1 + r.below(3)
        ks = []
        for _ in range(n):
            ki = key()
            if CLASS[ki] not in [CLASS[x] for x in ks]:
                ks.append(ki)
        vs = [ival() for _ in ks]
        other = "{%s}" % ", ".join("k%d: %s" % (ki, render(v)) for ki, v in zip(ks, vs))
        if k == "union":
            for ki, v in zip(ks, vs):
                m.touch(ki)
                d.set(POOL[ki][0], v)
            return {"src": "d ||= %s" % other, "cls": "||"}
        if k == "unionplus":
            for ki in ks:
                if d.has(POOL[ki][0]) and not isinstance(d.get(POOL[ki][0]), int):
                    return None
            for ki, v in zip(ks, vs):
                m.touch(ki)
                kv = POOL[ki][0]
                d.set(kv, d.get(kv) + v if d.has(kv) else v)
            return {"src": "d ||+= %s" % other, "cls": "||+"}
        if k == "inter":
            keep = NDict(default=d.default, has_default=d.has_default)
            for kk, vv in d.items:
                if any(key_eq(kk, POOL[ki][0]) for ki in ks):
                    keep.items.append((kk, vv))
            for ki in ks:
                m.touch(ki)
            m.d = keep
            m.origin = {c: o for c, o in m.origin.items() if any(key_eq(POOL[o][0], kk) for kk, _ in keep.items)}
            return {"src": "d &&= %s" % other, "cls": "&&"}
        for ki in ks:
            if d.has(POOL[ki][0]):
                m.touch(ki)
                d.remove(POOL[ki][0])
                m.forget(ki)
        return {"src": "d --= %s" % other, "cls": "--"}
    if k == "fromset":
        ks = [r.below(NK) for _ in range(r.below(6))]
        m.d = NDict()
        m.origin = {}
        for ki in ks:
            m.touch(ki)
            m.d.set(POOL[ki][0], None)
        return {"src": "d = set([%s])" % ", ".join("k%d" % ki for ki in ks), "cls": "set()"}
    if k == "fromdict":
        ks = [r.below(NK) for _ in range(r.below(6))]
        vs = [ival() for _ in ks]
        m.d = NDict()
        m.origin = {}
        for ki, v in zip(ks, vs):
            m.touch(ki)
            m.d.set(POOL[ki][0], v)
        return {"src": "d = dict([%s])" % ", ".join("[k%d, %s]" % (ki, render(v)) for ki, v in zip(ks, vs)), "cls": "dict()"}
    if k == "eqcheck":
        # the same map written with other representatives of every key (and == on values), and a near miss
        alt = []
        for kk, vv in d.items:
            reps = [i for i in range(NK) if key_eq(POOL[i][0], kk)]
            alt.append((r.pick(reps), vv))
        if r.below(2) and alt:
            order = list(reversed(alt))
        else:
            order = alt
        miss = r.below(3) == 0 and len(alt) > 0
        ents = ["k%d: %s" % (ki, render(vv)) for ki, vv in order]
        if miss:
            ents[0] = "k%d: %s" % (order[0][0], "99")
            same = isinstance(order[0][1], (int, float)) and order[0][1] == 99
        want = 0 if (miss and not same) else 1
        return {"src": "tmp = (d == {%s})" % ", ".join(ents), "cls": "==:%d" % want, "tmp": want, "observe": True}
    raise ValueError(k)


KINDS = ["literal", "set", "set", "set", "setlist", "opassign", "opassign", "remove", "addkey", "delkey", "insert", "union",
         "inter", "minus", "unionplus", "fromset", "fromdict", "eqcheck", "eqcheck"]

PROBE = "[len(d), [%s], [%s], keys(d), items(d), values(d)]" % (
    ", ".join("k%d in d" % i for i in range(NK)), ", ".join("try (d[k%d]) catch e -> \"<missing>\"" % i for i in range(NK)))
PROBE2 = "[%s]" % ", ".join("d !? k%d" % i for i in range(NK))


def same_up_to_keys(model, impl):
    """contents equal, keys up to key_eq, values exact"""
    if len(model.items) != len(impl.items):
        return False
    for kk, vv in model.items:
        i = impl.find(kk)
        if i < 0 or mcanon(impl.items[i][1]) != mcanon(vv):
            return False
    if model.has_default != impl.has_default:
        return False
    if model.has_default and mcanon(model.default) != mcanon(impl.default):
        return False
    return True


def check_history(nl, case, ctx=None):
    m = DModel()
    steps = [{"src": s} for s in PRELUDE]
    meta = []
    for op in case["ops"]:
        c = concretize(m, op)
        if c is None:
            continue
        steps.append({"src": c["src"], "snap": ["d", "tmp"]})
        meta.append(("stmt", c, copy.deepcopy(m.d)))
        steps.append({"src": PROBE})
        meta.append(("probe", c, copy.deepcopy(m.d)))
        steps.append({"src": PROBE2})
        meta.append(("probe2", c, copy.deepcopy(m.d)))
    if not meta:
        return None
    results = nl.run(steps, fuel=500_000, timeout=60)
    np_ = len(PRELUDE)
    for i in range(np_):
        if results[i]["status"] != "ok":
            raise GeneratorBug("prelude failed: %s -> %s" % (steps[i]["src"], results[i]))
    hist = []
    fail = None
    nstm = 0
    for (kind, c, md), st_, r in zip(meta, steps[np_:], results[np_:]):
        if kind == "stmt":
            hist.append(c["src"])
            nstm += 1
        so_far = "; ".join(hist)
        if r["status"] == "parse_error":
            raise GeneratorBug("does not parse: %s" % st_["src"])
        if r["status"] != "ok":
            fail = Fail("C09:%s:%s" % (c["cls"], r["status"]), "%r failed: %s; history: %s" % (st_["src"], {k: r.get(k) for k in ("status", "msg", "panic")}, so_far))
            break
        if kind == "stmt":
            snap = r["snap"]["vars"]
            impl = from_canon(snap["d"]["v"])
            if not isinstance(impl, NDict) or not same_up_to_keys(md, impl):
                fail = Fail("C09:%s:contents" % c["cls"], "after %r d = %s but the finite-map model says %s; history: %s"
                            % (c["src"], norm(snap["d"]["v"]), mcanon(md), so_far))
                break
            if "tmp" in c and norm(snap["tmp"]["v"]) != mcanon(c["tmp"]):
                fail = Fail("C09:%s:result" % c["cls"], "%r gave %s, model says %s; history: %s" % (c["src"], norm(snap["tmp"]["v"]), mcanon(c["tmp"]), so_far))
                break
        elif kind == "probe":
            out = r["value"]["l"]
            if norm(out[0]) != {"i": str(len(md.items))}:
                fail = Fail("C09:%s:len" % c["cls"], "len(d) = %s, model %d; history: %s" % (norm(out[0]), len(md.items), so_far))
                break
            for i in range(NK):
                want_in = md.has(POOL[i][0])
                got_in = norm(out[1]["l"][i]) == {"i": "1"}
                if want_in != got_in:
                    fail = Fail("C09:%s:in:%s" % (c["cls"], "collide" if got_in else "miss"),
                                "(%s in d) = %s but model says %s; d = %s; history: %s" % (POOL[i][1], got_in, want_in, mcanon(md), so_far))
                    break
                got = norm(out[2]["l"][i])
                if want_in:
                    want = mcanon(md.get(POOL[i][0]))
                elif md.has_default:
                    want = mcanon(md.default)
                else:
                    want = {"s": "<missing>"}
                if got != want:
                    fail = Fail("C09:%s:lookup:%s" % (c["cls"], "miss" if want_in else "collide"),
                                "d[%s] = %s but model says %s; d = %s; history: %s" % (POOL[i][1], got, want, mcanon(md), so_far))
                    break
            if fail:
                break
            ks = [from_canon(x) for x in out[3]["l"]]
            its = [from_canon(x) for x in out[4]["l"]]
            vs = [mcanon(from_canon(x)) for x in out[5]["l"]]
            ok = len(ks) == len(md.items) and all(any(key_eq(kk, x) for x in ks) for kk, _ in md.items)
            ok = ok and len(its) == len(md.items) and all(any(key_eq(kk, it[0]) and mcanon(it[1]) == mcanon(vv) for it in its) for kk, vv in md.items)
            ok = ok and sorted(map(str, vs)) == sorted(str(mcanon(vv)) for _, vv in md.items)
            if not ok:
                fail = Fail("C09:%s:keys_items_values" % c["cls"], "keys/items/values = %s / %s / %s disagree with %s; history: %s"
                            % (out[3], out[4], out[5], mcanon(md), so_far))
                break
        else:
            out = r["value"]["l"]
            for i in range(NK):
                if md.has(POOL[i][0]):
                    want = mcanon(md.get(POOL[i][0]))
                elif md.has_default:
                    want = mcanon(md.default)
                else:
                    want = None
                if norm(out[i]) != want:
                    fail = Fail("C09:%s:safe_index" % c["cls"], "(d !? %s) = %s but model says %s; d = %s; history: %s"
                                % (POOL[i][1], norm(out[i]), want, mcanon(md), so_far))
                    break
            if fail:
                break
    if ctx is not None:
        ctx.count("; ".join(hist), m.nt)
        for (kind, c, _) in meta:
            if kind == "stmt":
                ctx.cls(c["cls"])
        ctx.extra("statements", nstm)
        if m.nt:
            ctx.sample({"history": hist})
    return fail


# ---- functions over lists of keys --------------------------------------------------------------------

def classes_in_order(idxs):
    seen, out = [], []
    for i in idxs:
        if CLASS[i] not in seen:
            seen.append(CLASS[i])
            out.append(i)
    return out


def check_funcs(nl, case, ctx=None):
    idxs = case["ks"]
    lst = "[%s]" % ", ".join("k%d" % i for i in idxs)
    firsts = classes_in_order(idxs)
    counts = {CLASS[i]: sum(1 for j in idxs if CLASS[j] == CLASS[i]) for i in firsts}
    steps = [{"src": s} for s in PRELUDE] + [
        {"src": "unique(%s)" % lst},
        {"src": "frequencies(%s)" % lst},
        {"src": "count_distinct(%s)" % lst},
        {"src": "group_all(%s, id)" % lst},
        {"src": "calls := 0; f := memoize(\\x -> (calls += 1; 0)); for (x <- %s) f(x); calls" % lst},
        {"src": "len(set(%s))" % lst},
    ]
    # memoize keys on the whole argument tuple: f(a, b), f([a, b]), f(a), f() and f([]) are different calls
    calls = [[i] for i in idxs] + [[i, j] for i, j in zip(idxs, idxs[1:])] + [[("L", i, j)] for i, j in zip(idxs, idxs[1:])] + [[], [("L",)]]
    def arg_src(a):
        return "k%d" % a if isinstance(a, int) else "[%s]" % ", ".join("k%d" % x for x in a[1:])
    def arg_val(a):
        return POOL[a][0] if isinstance(a, int) else [POOL[x][0] for x in a[1:]]
    steps.append({"src": "calls2 := 0; f2 := memoize(\\...xs -> (calls2 += 1; 0)); %s; calls2" % "; ".join("f2(%s)" % ", ".join(arg_src(a) for a in c) for c in calls)})
    tuples = []
    for c in calls:
        t = [arg_val(a) for a in c]
        if not any(key_eq(t, u) for u in tuples):
            tuples.append(t)
    results = nl.run(steps, fuel=500_000, timeout=60)
    np_ = len(PRELUDE)
    res = results[np_:]
    fails = []
    names = ["unique", "frequencies", "count_distinct", "group_all", "memoize", "set", "memoize_variadic"]
    for n_, r in zip(names, res):
        if r["status"] != "ok":
            return Fail("C09:fn:%s:%s" % (n_, r["status"]), "%s on %s: %s" % (n_, lst, {k: r.get(k) for k in ("status", "msg", "panic")}))
    nclass = len(firsts)
    # unique keeps first occurrences in order (exact representatives)
    want_u = [mcanon(POOL[i][0]) for i in firsts]
    if [norm(x) for x in res[0]["value"]["l"]] != want_u:
        fails.append(Fail("C09:fn:unique", "unique(%s) = %s, expected first occurrences %s" % (lst, res[0]["value"], want_u)))
    fr = from_canon(res[1]["value"])
    okf = isinstance(fr, NDict) and len(fr.items) == nclass and all(fr.find(POOL[i][0]) >= 0 and fr.items[fr.find(POOL[i][0])][1] == counts[CLASS[i]] for i in firsts)
    if not okf:
        fails.append(Fail("C09:fn:frequencies", "frequencies(%s) = %s, expected class counts %s" % (lst, res[1]["value"], [(POOL[i][1], counts[CLASS[i]]) for i in firsts])))
    for idx, n_ in ((2, "count_distinct"), (4, "memoize"), (5, "set")):
        if norm(res[idx]["value"]) != {"i": str(nclass)}:
            fails.append(Fail("C09:fn:%s" % n_, "%s over %s = %s, expected %d classes" % (n_, lst, res[idx]["value"], nclass)))
    if norm(res[6]["value"]) != {"i": str(len(tuples))}:
        fails.append(Fail("C09:fn:memoize_variadic", "a variadic memoized function called with %s ran its body %s times, expected %d distinct argument tuples"
                          % ([[arg_src(a) for a in c] for c in calls], res[6]["value"], len(tuples))))
    groups = [[from_canon(y) for y in g["l"]] for g in res[3]["value"]["l"]]
    okg = len(groups) == nclass and sum(len(g) for g in groups) == len(idxs) and all(all(key_eq(g[0], y) for y in g) for g in groups)
    if not okg:
        fails.append(Fail("C09:fn:group_all", "group_all(%s, id) = %s, expected %d groups of equal keys" % (lst, res[3]["value"], nclass)))
    if ctx is not None:
        ctx.count(lst, nclass < len(idxs), "fn:lists")
        ctx.sample({"keys": lst, "classes": nclass})
    return fails


CHECKS = {"history": check_history, "funcs": check_funcs}


def r16(n=12):
    return st.binary(min_size=2 * n, max_size=2 * n).map(lambda b: [b[i] << 8 | b[i + 1] for i in range(0, len(b), 2)])


def worker(ctx):
    op = st.fixed_dictionaries({"k": st.sampled_from(KINDS), "r": r16()})
    hist = st.lists(op, min_size=8, max_size=ctx.scale(30, 40)).map(lambda ops: {"ops": ops})
    ctx.hyp(hist, lambda c: ctx.check("history", c), ctx.share(ctx.scale(1600, 50000)), label="c09h")
    ks = st.lists(st.integers(0, NK - 1).map(lambda i: i), min_size=0, max_size=10).map(lambda xs: {"ks": xs})
    ks2 = st.binary(min_size=0, max_size=10).map(lambda b: {"ks": [x * NK >> 8 for x in b]})
    ctx.hyp(st.one_of(ks, ks2), lambda c: ctx.check("funcs", c), ctx.share(ctx.scale(1600, 50000)), label="c09f")
