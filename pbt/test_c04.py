"""C04 - all application forms agree.

Differential between routes the property declares equal. For each callable f (every pure builtin and
type, plus user closures, partial applications, sections, compositions) and each argument tuple from
a pool bound once to session variables (so all forms see the same map instances), the forms of the
statement are evaluated inside one expression and their canonical outcomes compared: all equal, or
all fail.
"""
import itertools

from hypothesis import strategies as st

from .core import Fail, GeneratorBug, isolate_abort, isolate_hang
from .pool import DENY, POOL, QUICK, SIZELIKE, by_name, pool_decls
from .runner import Inconclusive
from .values import ckey, norm

PID = "C04"
LEVEL = "exploration"
EXHAUSTIVE = True
RULE = ("exhaustive grid callable x pool^k: 11-13 forms per binary tuple, 8 per unary, 7 per ternary, compared for equal "
        "canonical outcome or common failure; non-trivial = at least one form returned a value; distinct by (callable, "
        "argument names)")
ASSUMPTIONS = [
    "effectful/nondeterministic builtins are not called; size-like builtins do not receive huge integers",
    "group_all (order taken from a freshly built hash map) is compared as a multiset of groups",
    "when every form fails the kinds of failure are not compared (panics are C14's claim)",
]
BYNAME = by_name()
UNORDERED = {"group_all"}
USER_CALLABLES = [
    ("u_pair", "(\\a, b -> [a, b])"), ("u_def", "(\\a, b, c = 5 -> [a, b, c])"), ("u_splat", "(\\...r -> r)"), ("u_one", "(\\a -> [a])"),
    ("u_comp", "((+1) >>> (*2))"), ("u_sect", "(_ - _)"), ("u_part", "(subtract 3)"), ("u_flip", "flip(-)"), ("u_on", "(+ on len)"),
    ("u_fan", "(len &&& id)"), ("u_typed", "(\\a: int, b: int -> a - b)"), ("u_idx", "_[_]"), ("u_three", "(\\a, b, c -> [c, b, a])"),
    ("u_left_minus", "(10 -)"), ("u_left_div", "(100 //)"), ("u_left_cat", "([1, 2] ++)"), ("u_left_str", "(\"ab\" $)"), ("u_left_pair", "(7 ..)"),
    ("u_right_minus", "(- 10)(_)"), ("u_flip_pair", "flip(\\a, b -> [a, b])"), ("u_part_last", "(_ til _ by 2)"),
]
T = "try (%s) catch e__ -> \"E\""


def forms2(a, b):
    A, B = "p_" + a, "p_" + b
    fs = [("infix", "%s g %s" % (A, B)), ("call", "g(%s, %s)" % (A, B)), ("bang", "g ! %s, %s" % (A, B)), ("backtick", "%s `g` %s" % (A, B)),
          ("sect_call_1", "g(_, %s)(%s)" % (B, A)), ("sect_call_2", "g(%s, _)(%s)" % (A, B)), ("sect_chain_1", "(_ g %s)(%s)" % (B, A)),
          ("sect_chain_2", "(%s g _)(%s)" % (A, B)), ("apply", "[%s, %s] apply g" % (A, B)), ("of", "g of [%s, %s]" % (A, B)),
          ("splat", "g(...[%s, %s])" % (A, B)), ("opassign", "(\\x__ -> (x__ g= %s; x__))(%s)" % (B, A)),
          # sections whose remaining arguments are splats, before and after the placeholder, and a splatted placeholder
          ("sect_then_splat", "g(_, ...[%s])(%s)" % (B, A)), ("splat_then_sect", "g(...[%s], _)(%s)" % (A, B)),
          ("sect_splat_hole", "g(..._)([%s, %s])" % (A, B)), ("sect_arg_splat_hole", "g(%s, ..._)([%s])" % (A, B))]
    if BYNAME[a][1] not in ("func", "type"):
        fs.append(("left_section", "(%s g)(%s)" % (A, B)))
    if a == b:
        # `x f= b` is f(x, b) also when b mentions x
        fs.append(("opassign_self", "(\\x__ -> (x__ g= x__; x__))(%s)" % A))
    # right section through a one-argument call, only meaningful when g(b) is a function
    fs.append(("curry_probe", "(\\h__ -> if (h__ is func) [1, h__(%s)] else [0, null])(g(%s))" % (A, B)))
    return fs


def forms1(a):
    A = "p_" + a
    return [("call", "g(%s)" % A), ("bang", "g ! %s" % A), ("splat", "g(...[%s])" % A), ("dot", "%s . g" % A), ("then", "%s then g" % A),
            ("sect", "g(_)(%s)" % A), ("apply", "[%s] apply g" % A), ("of", "g of [%s]" % A)]


def forms3(a, b, c):
    A, B, C = "p_" + a, "p_" + b, "p_" + c
    return [("call", "g(%s, %s, %s)" % (A, B, C)), ("bang", "g ! %s, %s, %s" % (A, B, C)), ("splat", "g(...[%s, %s, %s])" % (A, B, C)),
            ("sect_1", "g(_, %s, %s)(%s)" % (B, C, A)), ("sect_2", "g(%s, _, %s)(%s)" % (A, C, B)), ("apply", "[%s, %s, %s] apply g" % (A, B, C)),
            ("of", "g of [%s, %s, %s]" % (A, B, C)), ("splat_mixed", "g(%s, ...[%s, %s])" % (A, B, C)),
            ("sect_then_splat", "g(_, ...[%s, %s])(%s)" % (B, C, A)), ("sect_mid_then_splat", "g(%s, _, ...[%s])(%s)" % (A, C, B)),
            ("splat_then_sect", "g(...[%s, %s], _)(%s)" % (A, B, C)), ("sect_arg_splat_hole", "g(%s, ..._)([%s, %s])" % (A, B, C))]


def loose(c, unordered):
    if unordered and isinstance(c, dict) and "l" in c:
        return {"l": sorted(c["l"], key=ckey)}
    return c


def check_callable(nl, case, ctx=None):
    """case: {f: name or user-callable source, k: arity, names: pool subset}"""
    f, k, names = case["f"], case["k"], case["names"]
    fsrc = dict(USER_CALLABLES).get(f, "(%s)" % f)
    sizelike = f in SIZELIKE
    unordered = f in UNORDERED
    tuples = list(itertools.product(names, repeat=k))
    items = []
    for tup in tuples:
        if sizelike and any("big" in BYNAME[n][2] for n in tup):
            if ctx is not None:
                ctx.exclude("size-like builtin with huge integer")
            continue
        fs = forms1(*tup) if k == 1 else (forms2(*tup) if k == 2 else forms3(*tup))
        items.append((tup, fs, "[%s]" % ", ".join(T % e for _, e in fs)))
    prelude = pool_decls() + ["g := %s" % fsrc]
    fails = []
    sid = nl.open()
    try:
        pre = nl.run(prelude, sid=sid)
        if any(r["status"] != "ok" for r in pre):
            if ctx is not None:
                ctx.exclude("callable not bindable: %s" % f)
            return None
        B = 300
        for off in range(0, len(items), B):
            chunk = items[off:off + B]
            srcs = [e for _, _, e in chunk]
            try:
                results = nl.run(srcs, sid=sid, fuel=400_000, stop_on_panic=False, timeout=90)
            except Inconclusive as e:
                if e.kind in ("hang", "abort", "crash"):
                    if ctx is not None:
                        ctx.exclude("%s inside a form batch (C14's claim): %s" % (e.kind, f))
                    sid = nl.open()
                    nl.run(prelude, sid=sid)
                    continue
                raise
            poisoned = False
            for (tup, fs, expr), r in zip(chunk, results):
                if r["status"] == "parse_error":
                    raise GeneratorBug("does not parse: %s" % expr)
                if r["status"] in ("panic", "fuel"):
                    poisoned = poisoned or r["status"] == "panic"
                    if ctx is not None:
                        ctx.exclude("%s inside a form (C14's claim)" % r["status"])
                    continue
                if r["status"] != "ok":
                    continue
                outs = [norm(x) for x in r["value"]["l"]]
                labels = [l for l, _ in fs]
                E = {"s": "E"}
                if k == 2:
                    probe = outs[labels.index("curry_probe")]
                    main = [(l, o) for l, o in zip(labels, outs) if l != "curry_probe"]
                else:
                    probe, main = None, list(zip(labels, outs))
                base = loose(main[0][1], unordered)
                bad = [(l, o) for l, o in main if loose(o, unordered) != base]
                any_value = any(o != E for _, o in main)
                if ctx is not None:
                    ctx.count("%s|%s" % (f, ",".join(tup)), any_value, "k%d:%s" % (k, "value" if any_value else "allfail"))
                    if any_value:
                        ctx.sample({"callable": fsrc, "args": [BYNAME[n][0] for n in tup], "forms": len(main)})
                if bad:
                    kinds = ",".join(BYNAME[n][1] for n in tup)
                    fails.append(Fail("C04:forms:%s:%s:%s" % (f, kinds, bad[0][0]),
                                      "g := %s; arguments %s: form %s (%s) gives %s but %s (%s) gives %s"
                                      % (fsrc, [BYNAME[n][0] for n in tup], main[0][0], fs[0][1], main[0][1], bad[0][0], dict(fs)[bad[0][0]], bad[0][1])))
                    if len(fails) >= 3:
                        return fails
                    continue
                # the right-section rule is stated for two-argument calls of a callable whose one-argument call
                # partially applies; variadic composites such as `+ on len` legitimately differ (documented)
                if probe is not None and f not in dict(USER_CALLABLES) and main[0][1] != E and probe != E and probe.get("l", [None])[0] == {"i": "1"}:
                    got = loose(probe["l"][1], unordered)
                    if got != base:
                        fails.append(Fail("C04:right_section:%s" % f, "g := %s; g(%s, %s) = %s but g(%s)(%s) = %s"
                                          % (fsrc, BYNAME[tup[0]][0], BYNAME[tup[1]][0], main[0][1], BYNAME[tup[1]][0], BYNAME[tup[0]][0], probe["l"][1])))
                        if len(fails) >= 3:
                            return fails
            if poisoned:
                nl.run(prelude, sid=sid)
    finally:
        try:
            nl.close_session(sid)
        except Inconclusive:
            pass
    return fails


CHECKS = {"callable": check_callable}


def worker(ctx):
    globs = [g["name"] for g in ctx.nl.globals() if g["kind"] in ("builtin", "type") and g["name"] not in DENY
             and not g["name"].startswith("__internal")]
    callables = globs + [n for n, _ in USER_CALLABLES]
    allnames = [n for n, _, _, _ in POOL]
    names2 = allnames if ctx.thorough else QUICK
    names3 = QUICK[:14] if ctx.thorough else ["one", "i64", "f15", "su", "l123", "ddef", "null", "finc"]
    jobs = []
    for f in callables:
        jobs.append({"f": f, "k": 1, "names": allnames})
        jobs.append({"f": f, "k": 2, "names": names2})
        jobs.append({"f": f, "k": 3, "names": names3})
    for n, job in enumerate(jobs):
        if n % ctx.nworkers == ctx.index:
            ctx.check("callable", job)
