"""C03 - infix chains group by runtime precedence and associativity.

Two independent references written from the property text (a stack simulation and a declarative
root-finder) must agree with each other (else: harness bug) and give the expected tree. Then
  1. value of the chain == value of the reference tree evaluated by the Python model,
  2. metamorphic: value of the chain == value of the chain fully parenthesised by the reference,
  3. underscore-section routes agree with the direct route,
  4. the evaluation log equals e0, f1, e1, ..., fn, en exactly once each, in order.
Operators: tree-building user closures (left), copies of the right-associative builtin `.+` and the
left-associative `+.` with assigned precedences, comparison aliases with assigned precedences mixed
with + and *, zip / ** aliases (n-ary merging), til/to + by, fold/scan + from, replace + with.
"""
import itertools
import math

from hypothesis import strategies as st

from .core import Fail, GeneratorBug
from .values import mcanon, norm, render

PID = "C03"
LEVEL = "exploration"
RULE = ("chains of 1-7 operators; exhaustive for <= 3 operators over all weak orders x associativity mixes (tree family), "
        "Hypothesis-sampled above and for the chainable families; non-trivial = >= 3 operators with at least one precedence tie "
        "or one inversion (a looser operator between two tighter ones) or a merge decision; distinct by source text + precedence table")
ASSUMPTIONS = [
    "precedences are finite or infinite floats, never NaN; a weak order is mapped to floats including negative, fractional and +-inf",
    "operator values are bound to names once per case; each chain is evaluated in a fresh session",
]
EXHAUSTIVE = False

LEVELS = [-math.inf, -7.0, -0.5, 0.0, 0.25, 1.0, 4.0, 5.0, 1e9, math.inf]

# family: tree (tag), pre (.+ copy, right), app (+. copy, left)
TREE_OPS = {"t1": ("tree", "L", 1), "t2": ("tree", "L", 2), "t3": ("tree", "L", 3), "t4": ("tree", "L", 4),
            "r1": ("pre", "R", None), "r2": ("pre", "R", None), "a1": ("app", "L", None)}
CMP = {"<": lambda a, b: a < b, "<=": lambda a, b: a <= b, "==": lambda a, b: a == b, "!=": lambda a, b: a != b,
       ">": lambda a, b: a > b, ">=": lambda a, b: a >= b}


def prec_src(p):
    if p == math.inf:
        return "(1.0/0.0)"
    if p == -math.inf:
        return "(0.0-1.0/0.0)"
    if p < 0:
        return "(0.0-%r)" % (-p)
    return repr(p)


def tighter_when_before(left, right):
    """does the pending left operator apply before the arriving right one?"""
    if left["prec"] > right["prec"]:
        return True
    if left["prec"] < right["prec"]:
        return False
    return left["assoc"] == "L"


def chains_with(left, right):
    fl, fr = left["fam"], right["fam"]
    if fl in ("cmp", "zip", "cart", "fan", "par") and fl == fr:
        return True
    return False


def simulate(ops, n_operands):
    """stack simulation -> tree. leaf = ('leaf', k); node = ('node', [op...], [children...])"""
    pending = []  # (children, oplist, headop)
    right = ("leaf", 0)
    for i, op in enumerate(ops):
        operand = ("leaf", i + 1)
        merged = False
        while pending and tighter_when_before(pending[-1][2], op):
            children, oplist, head = pending.pop()
            if chains_with(head, op):
                pending.append((children + [right], oplist + [op], head))
                right = operand
                merged = True
                break
            right = ("node", oplist, children + [right])
        if merged:
            continue
        pending.append(([right], [op], op))
        right = operand
    while pending:
        children, oplist, head = pending.pop()
        right = ("node", oplist, children + [right])
    return right


def rootfind(ops, lo, hi):
    """declarative reference for chains without merging: operands lo..hi (inclusive), operators ops[lo..hi-1]"""
    if lo == hi:
        return ("leaf", lo)
    idx = range(lo, hi)
    m = min(ops[i]["prec"] for i in idx)
    loosest = [i for i in idx if ops[i]["prec"] == m]
    root = next((i for i in loosest if ops[i]["assoc"] == "R"), loosest[-1])
    return ("node", [ops[root]], [rootfind(ops, lo, root), rootfind(ops, root + 1, hi)])


def eval_tree(t, leaves):
    if t[0] == "leaf":
        return leaves[t[1]]
    _, oplist, children = t
    vals = [eval_tree(c, leaves) for c in children]
    fam = oplist[0]["fam"]
    if fam == "tree":
        return [oplist[0]["tag"], vals[0], vals[1]]
    if fam == "pre":
        if not isinstance(vals[1], list):
            raise TypeError("prepend to non-list")
        return [vals[0]] + vals[1]
    if fam == "app":
        if not isinstance(vals[0], list):
            raise TypeError("append to non-list")
        return vals[0] + [vals[1]]
    if fam == "cmp":
        ok = all(CMP[o["sym"]](a, b) for o, a, b in zip(oplist, vals, vals[1:]))
        return int(ok)
    if fam == "plus":
        return vals[0] + vals[1]
    if fam == "times":
        return vals[0] * vals[1]
    if fam == "zip":
        for v in vals:
            if not isinstance(v, list):
                raise TypeError("zip of non-list")
        return [list(p) for p in zip(*vals)]
    if fam == "cart":
        for v in vals:
            if not isinstance(v, list):
                raise TypeError("product of non-list")
        return [list(p) for p in itertools.product(*vals)]
    raise ValueError(fam)


def paren(t, leaf_src, ops_by_id):
    """fully parenthesised source; n-ary merges are written as the call form"""
    if t[0] == "leaf":
        return leaf_src[t[1]]
    _, oplist, children = t
    parts = [paren(c, leaf_src, ops_by_id) for c in children]
    if any(x is None for x in parts):
        return None
    if len(oplist) == 1:
        return "(%s %s %s)" % (parts[0], oplist[0]["name"], parts[1])
    if oplist[0]["fam"] in ("zip", "cart", "fan", "par"):
        return "%s(%s)" % (oplist[0]["name"], ", ".join(parts))
    return None  # comparison chains have no call form


def build_prelude(ops_decl):
    pre = []
    for name, d in ops_decl.items():
        if d["fam"] == "tree":
            pre.append("%s := \\a, b -> [%d, a, b]" % (name, d["tag"]))
        elif d["fam"] == "pre":
            pre.append("%s := .+" % name)
        elif d["fam"] == "app":
            pre.append("%s := +." % name)
        elif d["fam"] == "cmp":
            pre.append("%s := %s" % (name, d["sym"]))
        elif d["fam"] == "plus":
            pre.append("%s := +" % name)
        elif d["fam"] == "times":
            pre.append("%s := *" % name)
        elif d["fam"] == "zip":
            pre.append("%s := zip" % name)
        elif d["fam"] == "cart":
            pre.append("%s := **" % name)
        elif d["fam"] == "fan":
            pre.append("%s := &&&" % name)
        elif d["fam"] == "par":
            pre.append("%s := ***" % name)
        form = d.get("pform", 0)
        if form == 1:
            # the precedence reached through an operator-assignment (the slot is read, dropped, recomputed and written back)
            pre.append("%s::precedence = 0.0" % name)
            pre.append("%s::precedence += %s" % (name, prec_src(d["prec"])))
        elif form == 2:
            pre.append("%s::precedence = %s" % (name, prec_src(d["prec"])))
            pre.append("%s::precedence *= 1.0" % name)
        elif form == 3:
            pre.append("%s::precedence = %s" % (name, prec_src(d["prec"])))
            pre.append("%s::precedence -= 0" % name)
        else:
            pre.append("%s::precedence = %s" % (name, prec_src(d["prec"])))
    return pre


def is_nontrivial(ops, tree):
    if len(ops) < 3:
        return any(len(t[1]) > 1 for t in walk(tree))
    ps = [o["prec"] for o in ops]
    tie = len(set(ps)) < len(ps)
    inv = any(ps[i] < ps[i - 1] and ps[i] < ps[i + 1] for i in range(1, len(ps) - 1))
    return tie or inv or any(len(t[1]) > 1 for t in walk(tree))


def walk(t):
    if t[0] == "node":
        yield t
        for c in t[2]:
            yield from walk(c)


def check_chain(nl, case, ctx=None):
    """case: {decl: {name: {fam, prec, assoc, tag?, sym?}}, chain: [names], leaves: [model values], holes: [operand idx] or None}"""
    decl = case["decl"]
    for nm, d in decl.items():
        d["name"] = nm
    ops = [decl[n] for n in case["chain"]]
    leaves = case["leaves"]
    n = len(ops)
    tree = simulate(ops, n + 1)
    if not any(chains_with(a, b) for a in decl.values() for b in decl.values()):
        t2 = rootfind(ops, 0, n)
        if t2 != tree:
            raise GeneratorBug("the two references disagree on %s: %s vs %s" % (case, tree, t2))
    try:
        want = ("ok", eval_tree(tree, leaves))
    except TypeError:
        want = ("err", None)
    leaf_src = [render(v) for v in leaves]
    direct = " ".join([leaf_src[0]] + ["%s %s" % (o["name"], leaf_src[i + 1]) for i, o in enumerate(ops)])
    srcs = [("direct", direct)]
    p = paren(tree, leaf_src, decl)
    if p is not None:
        srcs.append(("parenthesised", p))
    holes = case.get("holes")
    if holes:
        hs = sorted(set(h % (n + 1) for h in holes))
        parts = [("_" if 0 in hs else leaf_src[0])] + ["%s %s" % (o["name"], "_" if (i + 1) in hs else leaf_src[i + 1]) for i, o in enumerate(ops)]
        srcs.append(("section", "(%s)(%s)" % (" ".join(parts), ", ".join(leaf_src[h] for h in hs))))
    # evaluation log: operands and operator expressions each exactly once, left to right
    lparts = ["(log append= 0; %s)" % leaf_src[0]]
    wantlog = [0]
    for i, o in enumerate(ops):
        lparts.append("`(log append= \"%s#%d\"; %s)` (log append= %d; %s)" % (o["name"], i, o["name"], i + 1, leaf_src[i + 1]))
        wantlog += ["%s#%d" % (o["name"], i), i + 1]
    prelude = build_prelude(decl) + ["log := []"]
    steps = prelude + [s for _, s in srcs] + ["try (%s) catch e__ -> null; log" % " ".join(lparts)]
    res = nl.run(steps, fuel=300_000, timeout=40, stop_on_panic=True)
    np_ = len(prelude)
    for s, r in zip(steps[:np_], res[:np_]):
        if r["status"] != "ok":
            raise GeneratorBug("prelude %r failed: %s" % (s, r))
    table = ", ".join("%s:%s%s" % (nm, d["prec"], d["assoc"]) for nm, d in sorted(decl.items()))
    if ctx is not None:
        nt = is_nontrivial(ops, tree)
        fams = "+".join(sorted({o["fam"] for o in ops}))
        ctx.count(direct + " | " + table, nt, "n%d:%s:%s" % (n, fams, "holes" if holes else "direct"))
        if nt:
            ctx.sample({"chain": direct, "precedence": table})
    sig = "C03:%s:n%d" % ("+".join(sorted({o["fam"] for o in ops})), n)
    for (label, src), r in zip(srcs, res[np_:]):
        if r["status"] == "parse_error":
            raise GeneratorBug("does not parse: %s" % src)
        if r["status"] == "panic":
            return Fail(sig + ":panic", "%s with %s panicked: %s" % (src, table, r.get("panic")))
        if want[0] == "err":
            if r["status"] != "err":
                return Fail(sig + ":" + label + ":should_raise", "%s with precedences %s: the reference grouping %s is ill-typed, got %s" % (src, table, show(tree), r.get("value")))
            continue
        if r["status"] != "ok":
            return Fail(sig + ":" + label + ":raised", "%s with precedences %s raised %r; reference grouping %s" % (src, table, r.get("msg"), show(tree)))
        got = norm(r["value"])
        if got != mcanon(want[1]):
            return Fail(sig + ":" + label, "%s with precedences %s = %s; reference grouping %s gives %s" % (src, table, got, show(tree), mcanon(want[1])))
    rl = res[np_ + len(srcs)]
    if rl["status"] == "ok":
        gotlog = norm(rl["value"])
        if gotlog != mcanon(wantlog):
            return Fail(sig + ":evaluation_order", "%s: evaluation log %s, expected each operand and operator once, left to right: %s" % (direct, gotlog, wantlog))
    return None


def fan_apply(t, x):
    """value of (function denoted by tree t)(x): leaves tag their argument, &&& fans one argument out, *** applies
    position-wise to a sequence of exactly as many items"""
    if t[0] == "leaf":
        return [t[1], x]
    _, oplist, children = t
    if oplist[0]["fam"] == "fan":
        return [fan_apply(c, x) for c in children]
    if not isinstance(x, list) or len(x) != len(children):
        raise TypeError("*** needs a sequence of %d" % len(children))
    return [fan_apply(c, xi) for c, xi in zip(children, x)]


def check_fan(nl, case, ctx=None):
    """chains of &&& / *** copies over tagging functions, applied to one argument"""
    decl = case["decl"]
    for nm, d in decl.items():
        d["name"] = nm
    ops = [decl[n] for n in case["chain"]]
    n = len(ops)
    tree = simulate(ops, n + 1)
    x = case["x"]
    try:
        want = ("ok", fan_apply(tree, x))
    except TypeError:
        want = ("err", None)
    leaf_src = ["(\\v -> [%d, v])" % i for i in range(n + 1)]
    direct = " ".join([leaf_src[0]] + ["%s %s" % (o["name"], leaf_src[i + 1]) for i, o in enumerate(ops)])
    srcs = [("direct", "(%s)(%s)" % (direct, render(x)))]
    p = paren(tree, leaf_src, decl)
    if p is not None:
        srcs.append(("parenthesised", "(%s)(%s)" % (p, render(x))))
    prelude = build_prelude(decl)
    res = nl.run(prelude + [s_ for _, s_ in srcs], fuel=300_000, timeout=40, stop_on_panic=True)
    np_ = len(prelude)
    for s_, r in zip(prelude, res[:np_]):
        if r["status"] != "ok":
            raise GeneratorBug("prelude %r failed: %s" % (s_, r))
    table = ", ".join("%s:%s" % (nm, d["prec"]) for nm, d in sorted(decl.items()))
    if ctx is not None:
        nt = any(len(t[1]) > 1 for t in walk(tree)) or len({o["fam"] for o in ops}) > 1
        ctx.count(srcs[0][1] + " | " + table, nt, "fan:n%d:%s" % (n, "+".join(sorted({o["fam"] for o in ops}))))
        if nt:
            ctx.sample({"chain": srcs[0][1], "precedence": table})
    sig = "C03:%s:n%d" % ("+".join(sorted({o["fam"] for o in ops})), n)
    for (label, src), r in zip(srcs, res[np_:]):
        if r["status"] == "parse_error":
            raise GeneratorBug("does not parse: %s" % src)
        if r["status"] == "panic":
            return Fail(sig + ":panic", "%s with %s panicked: %s" % (src, table, r.get("panic")))
        if want[0] == "err":
            if r["status"] != "err":
                return Fail(sig + ":" + label + ":should_raise", "%s with precedences %s: the reference grouping %s cannot be applied to this argument, got %s" % (src, table, show(tree), r.get("value")))
            continue
        if r["status"] != "ok":
            return Fail(sig + ":" + label + ":raised", "%s with precedences %s raised %r; reference grouping %s" % (src, table, r.get("msg"), show(tree)))
        got = norm(r["value"])
        if got != mcanon(want[1]):
            return Fail(sig + ":" + label, "%s with precedences %s = %s; reference grouping %s gives %s" % (src, table, got, show(tree), mcanon(want[1])))
    return None


def show(t):
    if t[0] == "leaf":
        return "e%d" % t[1]
    return "(" + " ".join(itertools.chain.from_iterable(
        [[show(c)] + ([t[1][i]["name"]] if i < len(t[1]) else []) for i, c in enumerate(t[2])])) + ")"


# ---- fixed-template chainable families (til/to by, fold/scan from, replace with, zip with) ----------------

def check_template(nl, case, ctx=None):
    """case: {tmpl: name, pl: prec of left op alias, pr: prec of right op alias, third: optional trailing operator}"""
    T = TEMPLATES[case["tmpl"]]
    pl, pr = case["pl"], case["pr"]
    pre = ["lop := %s" % T["l"], "rop := %s" % T["r"], "lop::precedence = %s" % prec_src(pl), "rop::precedence = %s" % prec_src(pr),
           "thd := %s" % T.get("third", "+."), "thd::precedence = %s" % prec_src(case["pt"] if case.get("pt") is not None else 0.0)]
    a, b, c = T["a"], T["b"], T["c"]
    merged = tighter_when_before({"prec": pl, "assoc": "L"}, {"prec": pr, "assoc": "L"})
    chain = "%s lop %s rop %s" % (a, b, c)
    if merged:
        ref = "lsx(%s(%s, %s, %s))" % (T["l"], a, b, c)
    else:
        ref = "lsx(%s lop (%s rop %s))" % (a, b, c)
    steps = pre + ["lsx := \\v -> if (v is stream) list(v) else v", "try (lsx(%s)) catch e__ -> \"E\"" % chain, "try (%s) catch e__ -> \"E\"" % ref]
    # a third, unrelated operator after the pair: the merged application keeps the LEFT operator's precedence
    pt = case.get("pt")
    if pt is not None and merged:
        d = T.get("d", "7")
        chain3 = "%s lop %s rop %s thd %s" % (a, b, c, d)
        if tighter_when_before({"prec": pl, "assoc": "L"}, {"prec": pt, "assoc": "L"}):
            ref3 = "%s(%s, %s, %s) thd %s" % (T["l"], a, b, c, d)
        else:
            ref3 = "lsx(%s(%s, %s, (%s thd %s)))" % (T["l"], a, b, c, d)
        steps += ["try (lsx(%s)) catch e__ -> \"E\"" % chain3, "try (lsx(%s)) catch e__ -> \"E\"" % ref3]
    res = nl.run(steps, fuel=300_000, timeout=40)
    for s, r in zip(steps[:7], res[:7]):
        if r["status"] != "ok":
            raise GeneratorBug("prelude %r failed: %s" % (s, r))
    if ctx is not None:
        ctx.count("%s|%s|%s|%s" % (case["tmpl"], pl, pr, pt), True, "tmpl:%s:%s" % (case["tmpl"], "merge" if merged else "nomerge"))
        ctx.sample({"chain": chain, "lop": pl, "rop": pr, "merged": merged})
    outs = res[7:]
    for j in range(0, len(outs), 2):
        g, w = outs[j], outs[j + 1]
        if g["status"] == "panic" or w["status"] == "panic":
            return Fail("C03:tmpl:%s:panic" % case["tmpl"], "%s: %s / %s" % (steps[7 + j], g, w))
        if norm(g.get("value")) != norm(w.get("value")):
            return Fail("C03:tmpl:%s:%s" % (case["tmpl"], "merge" if merged else "nomerge"),
                        "with %s::precedence=%s and %s::precedence=%s (third=%s): %s gives %s but the reference grouping %s gives %s"
                        % (T["l"], pl, T["r"], pr, pt, steps[7 + j], norm(g.get("value")), steps[8 + j], norm(w.get("value"))))
    return None


TEMPLATES = {
    "til_by": {"l": "til", "r": "by", "a": "1", "b": "20", "c": "3", "third": "+.", "d": "99"},
    "to_by": {"l": "to", "r": "by", "a": "1", "b": "20", "c": "4", "third": "+.", "d": "99"},
    "fold_from": {"l": "fold", "r": "from", "a": "[1, 2, 3]", "b": "+", "c": "100", "third": "min", "d": "7"},
    "scan_from": {"l": "scan", "r": "from", "a": "[1, 2, 3]", "b": "+", "c": "100", "third": "+.", "d": "7"},
    "replace_with": {"l": "replace", "r": "with", "a": '"aXbX"', "b": '"X"', "c": '"y"', "third": "$", "d": '"Z"'},
    "zip_with": {"l": "zip", "r": "with", "a": "[1, 2]", "b": "[10, 20]", "c": "+", "third": "+.", "d": "5"},
}

CHECKS = {"chain": check_chain, "template": check_template, "fan": check_fan}

# ---- generators ---------------------------------------------------------------------------------------------


def tree_decl(names, precs, pforms=()):
    d = {}
    for i, (nm, p) in enumerate(zip(names, precs)):
        fam, assoc, tag = TREE_OPS[nm]
        d[nm] = {"fam": fam, "assoc": assoc, "prec": p}
        if i < len(pforms) and pforms[i]:
            d[nm]["pform"] = pforms[i]
        if tag is not None:
            d[nm]["tag"] = tag
    return d


def s_tree_case():
    def mk(names, precs, picks, holes, use_holes, pforms):
        decl = tree_decl(names, precs[:len(names)], pforms)
        chain = [names[p % len(names)] for p in picks]
        return {"decl": decl, "chain": chain, "leaves": [[k] for k in range(len(chain) + 1)], "holes": holes if use_holes else None}
    names = st.lists(st.sampled_from(sorted(TREE_OPS)), min_size=1, max_size=4, unique=True)
    return st.builds(mk, names, st.lists(st.sampled_from(LEVELS), min_size=4, max_size=4), st.lists(st.integers(0, 11), min_size=1, max_size=7),
                     st.lists(st.integers(0, 7), min_size=1, max_size=4), st.booleans(), st.lists(st.sampled_from([0, 0, 1, 2, 3]), min_size=4, max_size=4))


def s_cmp_case():
    def mk(syms, precs, picks, vals, plusp, timesp):
        decl = {}
        for i, (s, p) in enumerate(zip(syms, precs)):
            decl["c%d" % i] = {"fam": "cmp", "assoc": "L", "prec": p, "sym": s}
        decl["pl"] = {"fam": "plus", "assoc": "L", "prec": plusp}
        decl["tm"] = {"fam": "times", "assoc": "L", "prec": timesp}
        names = sorted(decl)
        chain = [names[p % len(names)] for p in picks]
        return {"decl": decl, "chain": chain, "leaves": vals[:len(chain) + 1]}
    return st.builds(mk, st.lists(st.sampled_from(sorted(CMP)), min_size=1, max_size=3), st.lists(st.sampled_from([0.5, 1.0, 1.0, 1.0, 4.0, 4.5, 9.0, -1.0]), min_size=3, max_size=3),
                     st.lists(st.integers(0, 11), min_size=2, max_size=6), st.lists(st.integers(0, 3), min_size=7, max_size=7),
                     st.sampled_from([4.0, 4.0, 1.0, 0.0]), st.sampled_from([5.0, 5.0, 1.0, 4.0]))


def s_zip_case():
    def mk(fam, precs, picks, lists):
        decl = {"z%d" % i: {"fam": fam, "assoc": "L", "prec": p} for i, p in enumerate(precs)}
        names = sorted(decl)
        chain = [names[p % len(names)] for p in picks]
        return {"decl": decl, "chain": chain, "leaves": lists[:len(chain) + 1]}
    lst = st.lists(st.integers(0, 9), min_size=1, max_size=2)
    return st.builds(mk, st.sampled_from(["zip", "cart"]), st.lists(st.sampled_from([0.0, 0.0, 1.0, 5.0, -2.0]), min_size=1, max_size=3),
                     st.lists(st.integers(0, 5), min_size=2, max_size=4), st.lists(lst, min_size=5, max_size=5))


def s_fan_case():
    def mk(fams, precs, picks, x):
        decl = {"%s%d" % ("fa" if f == "fan" else "pa", i): {"fam": f, "assoc": "L", "prec": p} for i, (f, p) in enumerate(zip(fams, precs))}
        names = sorted(decl)
        chain = [names[p % len(names)] for p in picks]
        return {"decl": decl, "chain": chain, "x": x}
    xs = st.sampled_from([5, [1, 2], [1, 2, 3], [[1, 2], [3, 4]], [[1, 2], 3], [1, [2, 3]], [[1, 2, 3], [4, 5]], [[[1, 2], 3], 4]])
    return st.builds(mk, st.lists(st.sampled_from(["fan", "par"]), min_size=1, max_size=3), st.lists(st.sampled_from([0.0, 0.0, 0.0, 1.0, 5.0, -2.0]), min_size=3, max_size=3),
                     st.lists(st.integers(0, 5), min_size=1, max_size=4), xs)


def weak_orders(k):
    """all assignments of k operators to precedence levels, up to order-isomorphism"""
    seen = set()
    for levels in itertools.product(range(k), repeat=k):
        ranks = sorted(set(levels))
        norm_ = tuple(ranks.index(x) for x in levels)
        if norm_ not in seen:
            seen.add(norm_)
            yield norm_


def worker(ctx):
    # 1. exhaustive: chains of 2..3 (4 in thorough) operators, each operator position its own function value, all weak
    #    orders of precedence x every assignment of {left closure, right builtin copy, left builtin copy}
    vals = [-math.inf, -0.5, 4.0, math.inf]
    maxn = 4 if ctx.thorough else 3
    jobs = []
    for n in range(1, maxn + 1):     # a single operator is a chain too (the evaluator has a separate path for it)
        for wo in weak_orders(n):
            for kinds in itertools.product(["t", "r", "a"], repeat=n):
                jobs.append((n, wo, kinds))
    for j, (n, wo, kinds) in enumerate(jobs):
        if j % ctx.nworkers != ctx.index:
            continue
        decl, chain = {}, []
        for i in range(n):
            nm = "o%d" % i
            fam, assoc = {"t": ("tree", "L"), "r": ("pre", "R"), "a": ("app", "L")}[kinds[i]]
            decl[nm] = {"fam": fam, "assoc": assoc, "prec": vals[wo[i]], "tag": i + 1, "pform": (j + i) % 4}
            chain.append(nm)
        for holes in (None, [1], [0, n]):
            ctx.check("chain", {"decl": decl, "chain": chain, "leaves": [[k] for k in range(n + 1)], "holes": holes})
    # 2. fixed-template chainable pairs over a precedence grid
    grid = [-1.0, 0.0, 0.5, 3.0]
    tj = [(t, pl, pr, pt) for t in sorted(TEMPLATES) for pl in grid for pr in grid for pt in [None, -2.0, 0.25, 2.0, 9.0]]
    for j, (t, pl, pr, pt) in enumerate(tj):
        if j % ctx.nworkers == ctx.index:
            ctx.check("template", {"tmpl": t, "pl": pl, "pr": pr, "pt": pt})
    # 3. sampled longer / mixed chains
    ctx.hyp(s_tree_case(), lambda c: ctx.check("chain", c), ctx.share(ctx.scale(2500, 80000)), label="c03t")
    ctx.hyp(s_cmp_case(), lambda c: ctx.check("chain", c), ctx.share(ctx.scale(1500, 40000)), label="c03c")
    ctx.hyp(s_zip_case(), lambda c: ctx.check("chain", c), ctx.share(ctx.scale(1000, 30000)), label="c03z")
    ctx.hyp(s_fan_case(), lambda c: ctx.check("fan", c), ctx.share(ctx.scale(1200, 30000)), label="c03f")
