"""C17 - freeze preserves meaning and binds free variables eagerly (translation validation).

The implementation against itself plus a static predicate:
  1. (freeze L)(args) and L(args) give the same value, output and raised/not-raised outcome;
  2. after a script that reassigns outer variables, swaps operators or changes a precedence, the frozen
     function still behaves as L did BEFORE the script (free variables were resolved at freeze time);
  3. freeze raises immediately exactly when L mentions an unbound free variable, assigns to (or pops /
     swaps / op-assigns) an outer variable, or contains an import or a bare underscore - even in dead code.
L is a closed lambda generated scope-aware (langgen.py) over a prelude that declares the free variables.
"""
from hypothesis import strategies as st

from .core import Fail, GeneratorBug
from .lang import pr
from .langgen import G, NAMES, gen_lambda
from .values import norm

PID = "C17"
LEVEL = "translation_validation"
RULE = ("Hypothesis-generated closed lambdas over a prelude (ints, a list, a pure function, two operator aliases with assigned "
        "precedences) x 2 argument tuples x a reassignment script; non-trivial = L mentions a free variable that the script "
        "reassigns, or contains a local that shadows an outer or builtin name, or a nested lambda; distinct by source of L")
ASSUMPTIONS = [
    "prelude functions are closed, so reassigning a variable cannot reach the frozen code through an unfrozen helper",
    "translation validation of the implementation against itself: L(args) before the script is the reference",
    "negative cases are built by construction (injected into live or dead code of an otherwise valid L)",
]

PRELUDE = ["oa := 3", "ob := 0-2", "oc := [4, 5, 6]", "od := \\p -> p * 2 + 1", "pl := +", "tm := *", "pl::precedence = %s", "tm::precedence = %s",
           "h := 11", "k := [12]"]   # h, k can be shadowed by generated locals; oa..od cannot (not in the generator's name pool)
SCRIPTS = {
    "ints": ["oa = oa + 100", "ob = 77", "h = 0"],
    "list": ["oc = []", "k = []"],
    "func": ["od = \\p -> 0"],
    "swapops": ["swap pl, tm"],
    "prec": ["pl::precedence = 99", "tm::precedence = 0-5"],
    "all": ["oa = 0", "ob = 1", "oc = [9]", "od = \\p -> p", "swap pl, tm", "pl::precedence = 50", "h = 1", "k = [0]"],
}
NEGATIVE = {
    "unbound_dead": ["if", ["int", 0], ["print", [["var", "nosuch_q"]]], None],
    "unbound_live": ["print", [["var", "nosuch_r"]]],
    "assign_outer": ["if", ["int", 0], ["assign", "oa", ["int", 1]], None],
    "opassign_outer": ["opassign", "ob", "+", ["int", 1]],
    "pop_outer": ["if", ["int", 0], ["raw", "(pop oc)"], None],
    "swap_outer": ["if", ["int", 0], ["raw", "(swap oa, ob)"], None],
    "index_assign_outer": ["if", ["int", 0], ["raw", "(oc[0] = 1)"], None],
    "import": ["if", ["int", 0], ["raw", "(import \"nofile\")"], None],
    "underscore": ["if", ["int", 0], ["raw", "_"], None],
}


def mentions(e, names, acc):
    if isinstance(e, list):
        if e and e[0] == "var" and e[1] in names:
            acc.add(e[1])
        if e and e[0] == "chain":
            for op, _ in e[2]:
                acc.add(op)
        for x in e:
            mentions(x, names, acc)


def mentions_unbound(e):
    """the generator's deliberate undeclared names (langgen errstmt / trycatch)"""
    if isinstance(e, list):
        if e and e[0] in ("var", "assign") and isinstance(e[1], str) and e[1].startswith(("nosuch_", "undeclared_")):
            return True
        return any(mentions_unbound(x) for x in e)
    return False


def self_shadowing_decl(e):
    """`x := e` where e mentions x: the initializer means the OUTER x (it is evaluated before the declaration)"""
    if isinstance(e, list):
        if e and e[0] == "decl" and isinstance(e[1], str) and _mentions_var(e[2], e[1]):
            return True
        return any(self_shadowing_decl(x) for x in e)
    return False


def _mentions_var(e, name):
    if isinstance(e, list):
        if e and e[0] == "var" and e[1] == name:
            return True
        if e and e[0] == "lambda":
            return False      # inside a lambda the name means the new (recursive) binding
        return any(_mentions_var(x, name) for x in e)
    return False


def decl_after_use(L):
    """some name is mentioned textually before a `name := ...` declaration of the same name inside L (the mention is
    executed later, e.g. from a closure or after an argument-position declaration)"""
    seen, flag = set(), [False]

    def rec(e):
        if isinstance(e, list):
            if e and e[0] == "decl" and isinstance(e[1], str):
                rec(e[2])
                if e[1] in seen:
                    flag[0] = True
                return
            if e and e[0] == "var" and isinstance(e[1], str):
                seen.add(e[1])
            for x in e:
                rec(x)
    rec(L)
    return flag[0]


OUTER_NAMES = {"oa", "ob", "oc", "od", "pl", "tm", "h", "k"}


def conditional_decl(e, cond=False):
    """an outer variable's name is declared with := on a path that may not run (an `if` branch or `try` body, which do not
    open a scope): whether a later mention means the local or the outer variable is only known at run time"""
    if not isinstance(e, list) or not e:
        return False
    t = e[0] if isinstance(e[0], str) else None
    if t == "decl" and cond and e[1] in OUTER_NAMES:
        return True
    if t in ("lambda", "for", "while", "switch"):
        return any(conditional_decl(x, False) for x in e[1:])
    if t == "if":
        return conditional_decl(e[1], cond) or conditional_decl(e[2], True) or conditional_decl(e[3], True)
    if t == "try":
        return conditional_decl(e[1], True) or any(conditional_decl(x, False) for x in e[2:])
    return any(conditional_decl(x, cond) for x in e)


def has_nested_lambda(e, top=True):
    if isinstance(e, list):
        if e and e[0] == "lambda" and not top:
            return True
        return any(has_nested_lambda(x, False) for x in e[1:]) if e and isinstance(e[0], str) else any(has_nested_lambda(x, False) for x in e)
    return False


# Scope-shape templates: every binder construct followed by a sibling / later scope that mentions an OUTER variable of
# the same name (h, k, oa are declared in the prelude and reassigned by the script). {U} is `h` or, in the negative
# variant, an undeclared name (freeze must then fail although the unfrozen lambda may run).
TEMPLATES = [
    "\\x -> switch (x) case [h] -> h case _ -> {U} + 100",
    "\\x -> switch (x) case [h] -> 1 case [oa] -> 2 case 5 -> {U} case _ -> oa + {U}",
    "\\x -> ((for (h <- [1, 2]) x); {U})",
    "\\x -> ((for (h <- [1]) x); (for (i <- [1, 2]) yield {U} + i))",
    "\\x -> ((try (throw 1) catch h -> h); {U})",
    "\\x -> ((\\h -> h)(1) + {U})",
    "\\x -> ((if (x) (for (h <- [1]) h)); {U} + 1)",
    "\\x -> (w := 1; (while (w > 0) (w = w - 1; h := 5; h)); {U})",
    "\\x -> [(for (h <- [1, 2]) yield h), {U}]",
    "\\x -> ((for (i <- [1]; h := i * 2) i); {U})",
    "\\x -> ((\\a, h = 5 -> a + h)(1) + {U})",
    "\\x -> ((for (i, h <<- [7]) i); {U})",
    "\\x -> ((for (h <- [1]) yield h: h); {U})",
    "\\x -> (g := \\h -> h * 2; g(1) + {U})",
    "\\x -> ((switch (x) case h -> h) + {U})",
    "\\x -> ((switch (x) case 0 -> (q := h; q) case _ -> 1) + {U})",
    "\\x, y = {U} -> x + y",
    "\\x -> (for (h <- [{U}, 2]) yield h)",
    "\\x -> (for (k <- k ++ [{U}]) yield k)",
    "\\x -> (x pl {U} tm 2 pl (\\pl -> pl)(1))",
    "\\x -> ((\\tm -> tm)(1) + (x pl 3 tm {U}))",
    "\\x -> (a, b := [1, 2]; a + b + {U})",
    "\\x -> ((for (a, b <- [[1, 2]]) a + b); {U})",
    "\\x -> F\"{{{U}}} and {{x}}\"",
    "\\x -> {{{U}: x}}",
    "\\x -> [{U}, -(x), -(1), - {U}]",
    # a freeze nested inside frozen code snapshots the enclosing code's own locals / parameters when IT runs
    "\\x -> (y := x; g := freeze \\-> y + {U}; y = 99; g())",
    "\\x -> (g := freeze \\q -> x + q + {U}; x = 100; g(1))",
    "\\x -> (y := 1; g := freeze \\-> (y = 5; y); g() + {U})",
    "\\x -> (fs := (for (i <- [1, 2, 3]) yield freeze \\-> i * 10 + x); x = 7; (for (g <- fs) yield g()) ++ [{U}])",
    "\\x -> (try (t := x * 2; (if (x > 0) throw \"boom\"); t) catch e -> t + 100 + {U})",
    "\\x -> switch ([x]) case 7 or [y] -> y + {U} case _ -> 0",
    "\\x -> switch (x) case [y, 0] or [0, y] -> y case 0 or 1 -> {U} case _ -> 2",
    "\\x -> ((if (x) (h := 5; h)); {U})",      # F30: conditionally declared name (see FAMILY)
    "\\x -> x[0:{U}] if (x is list) else {U})" if False else "\\x -> (if (x is list) x[0:{U}] else {U})",
]


# templates that demonstrate a recorded finding: index -> family suffix of the signature
FAMILY = {i: "conditional_declaration" for i, t in enumerate(TEMPLATES) if t.startswith("\\x -> ((if (x) (h := 5; h)); ")}


def check_template(nl, case, ctx=None):
    t = TEMPLATES[case["t"]]
    neg = case.get("neg")
    src = "(" + t.replace("{U}", "nosuch_zz" if neg else "h").replace("{{", "{").replace("}}", "}") + ")"
    sub = {"lam": None, "raw": src, "args": [[0], [1]], "script": "all", "ppl": case.get("ppl", "4.0"), "ptm": case.get("ptm", "5.0")}
    if neg:
        sub["neg"] = "template mentions an undeclared name"
    elif case["t"] in FAMILY:
        sub["family"] = FAMILY[case["t"]]
    return check_freeze(nl, sub, ctx)


def check_freeze(nl, case, ctx=None):
    L = case["lam"]
    src = case["raw"] if L is None else pr(L)
    if L is None:
        L = ["raw", src]
    pre = [p for p in PRELUDE]
    pre[6] = pre[6] % case["ppl"]
    pre[7] = pre[7] % case["ptm"]
    neg = case.get("neg")
    args = [", ".join(str(x) if x >= 0 else "(0-%d)" % -x for x in t) for t in case["args"]]
    calls = ["try (f(%s)) catch e__ -> [\"E\"]" % a for a in args]
    plain = pre + ["f := %s" % src] + calls
    frozen = pre + ["f := freeze %s" % src] + calls
    script = SCRIPTS[case["script"]]
    frozen_after = pre + ["f := freeze %s" % src] + script + calls
    rp = nl.run(plain, fuel=30_000, timeout=60, stop_on_panic=False, alloc_cap=1 << 16)
    rf = nl.run(frozen, fuel=30_000, timeout=60, stop_on_panic=False, alloc_cap=1 << 16)
    ra = nl.run(frozen_after, fuel=30_000, timeout=60, stop_on_panic=False, alloc_cap=1 << 16)
    np_ = len(pre)
    for r, s in zip(rp[:np_], pre):
        if r["status"] != "ok":
            raise GeneratorBug("prelude %r failed: %s" % (s, r))
    if rp[np_]["status"] == "parse_error":
        raise GeneratorBug("does not parse: %s" % src)
    free = set()
    mentions(L, {"oa", "ob", "oc", "od", "pl", "tm", "h", "k"}, free)
    touched = {"ints": {"oa", "ob", "h"}, "list": {"oc", "k"}, "func": {"od"}, "swapops": {"pl", "tm"}, "prec": {"pl", "tm"},
               "all": {"oa", "ob", "oc", "od", "pl", "tm", "h", "k"}}[case["script"]]
    nt = bool(free & touched) or has_nested_lambda(L) or L[0] == "raw"
    if ctx is not None:
        ctx.count(src + "|" + case["script"], nt, "neg:%s" % neg if neg else "script:%s" % case["script"])
        ctx.extra("disagreements_checked", 2 * len(calls))
        if nt:
            ctx.sample({"L": src, "script": script, "args": args})
    sig = "C17:%s" % (("neg:" + neg) if neg else case["script"])
    fz = rf[np_]
    if not neg and mentions_unbound(L):
        neg = "generator-made reference or assignment to an undeclared name"
    if neg:
        if fz["status"] != "err":
            return Fail(sig + ":freeze_should_fail", "f := freeze %s succeeded although the lambda %s" % (src, neg))
        return None
    if fz["status"] != "ok":
        return Fail(sig + ":freeze_failed", "f := freeze %s raised %r although every free variable is bound and no outer variable is assigned" % (src, fz.get("msg")))

    def outcome(r):
        if r["status"] in ("panic", "fuel"):
            return (r["status"],)
        return (r["status"], norm(r["value"]) if r["status"] == "ok" else None, r["output"])
    for i, c in enumerate(calls):
        op, of = outcome(rp[np_ + 1 + i]), outcome(rf[np_ + 1 + i])
        if "fuel" in (op[0], of[0]):
            continue
        if op != of:
            if case.get("family"):
                sig += ":" + case["family"]
            elif decl_after_use(L):
                sig += ":declared_after_use"
            elif conditional_decl(L):
                sig += ":conditional_declaration"
            return Fail(sig + ":meaning", "L = %s; L(%s) -> %s but (freeze L)(%s) -> %s" % (src, args[i], op, args[i], of))
        oa = outcome(ra[np_ + 1 + len(script) + i])
        if oa[0] == "fuel":
            continue
        if oa != op:
            if case.get("family"):
                sig += ":" + case["family"]
            elif self_shadowing_decl(L):
                sig += ":self_shadowing_initializer"
            elif decl_after_use(L):
                sig += ":declared_after_use"
            elif conditional_decl(L):
                sig += ":conditional_declaration"
            return Fail(sig + ":eager_binding", "L = %s frozen, then %s: f(%s) -> %s, but L(%s) at freeze time -> %s"
                        % (src, "; ".join(script), args[i], oa, args[i], op))
    return None


CHECKS = {"freeze": check_freeze, "template": check_template}


@st.composite
def s_case(draw):
    g = G()
    g.scopes[0].update({"oa": "int", "ob": "int", "oc": "list", "od": ("fn", (1, 0, False), "int"), "h": "int", "k": "list"})
    g.ops = ["pl", "tm"]
    g.no_outer_assign = True
    g.no_eval = True     # code inside an eval string is invisible to freeze and resolves names dynamically
    lam, srt = gen_lambda(draw, g, draw(st.integers(2, 4)), "int")
    arity = srt[1]
    n = arity[0] + (1 if arity[2] else 0)
    args = [[draw(st.integers(-2, 5)) for _ in range(n)] for _ in range(2)]
    case = {"lam": lam, "args": args, "script": draw(st.sampled_from(sorted(SCRIPTS))),
            "ppl": draw(st.sampled_from(["4.0", "5.0", "1.0", "9.5"])), "ptm": draw(st.sampled_from(["5.0", "4.0", "0.5"]))}
    if draw(st.integers(0, 4)) == 0:
        which = draw(st.sampled_from(sorted(NEGATIVE)))
        body = lam[2]
        pos = draw(st.integers(0, len(body[1]) - 1))
        body[1].insert(pos, NEGATIVE[which])
        case["neg"] = which
    return case


def worker(ctx):
    jobs = [{"t": t, "neg": neg, "ppl": ppl, "ptm": ptm} for t in range(len(TEMPLATES)) for neg in (False, True)
            for ppl, ptm in (("4.0", "5.0"), ("9.5", "0.5"))]
    for j, job in enumerate(jobs):
        if j % ctx.nworkers == ctx.index:
            ctx.check("template", job)
    ctx.hyp(s_case(), lambda c: ctx.check("freeze", c), ctx.share(ctx.scale(8000, 150000)), label="c17")
