"""Framework shared by all property suites: worker pool, statistics, Hypothesis driver, known
findings, evidence and replay files.

A property module defines
    PID, LEVEL, RULE, ASSUMPTIONS
    def worker(ctx): ...            run this worker's share; use ctx.check(...) / ctx.hyp(...)
    CHECKS = {name: fn(nl, case, ctx=None) -> None | Fail | [Fail]}     pure oracles used by both generation and replay
"""
import hashlib
import json
import multiprocessing as mp
import os
import re
import sys
import time
import traceback
import warnings

sys.set_int_max_str_digits(0)

from .runner import NL, Inconclusive

ROOT = os.path.dirname(os.path.dirname(os.path.abspath(__file__)))
EVIDENCE_DIR = os.path.join(ROOT, "evidence")
REPLAY_DIR = os.path.join(ROOT, "replays")
KNOWN_FILE = os.path.join(ROOT, "known_findings.json")


class Fail:
    """An oracle failure. sig: stable signature string naming the input class (used to match known
    findings); detail: human-readable; data: JSON-able extras."""

    def __init__(self, sig, detail, data=None, index=None):
        self.sig = sig
        self.detail = detail
        self.data = data or {}
        self.index = index  # position inside a batch case, so the replay holds only that element

    def __repr__(self):
        return "Fail(%s: %s)" % (self.sig, self.detail)


class ViolationFound(Exception):
    def __init__(self, payload):
        super().__init__(payload.get("detail", "violation"))
        self.payload = payload


class HarnessError(BaseException):
    """An ordinary exception inside a Hypothesis test body: abort at once instead of shrinking it."""

    def __init__(self, exc, trace):
        super().__init__(repr(exc))
        self.trace = trace


class GeneratorBug(BaseException):
    """The harness itself is wrong (generated text does not parse, models disagree with each other,
    ...): exit 2, never a violation."""


def h16(s):
    return hashlib.blake2b(s.encode("utf-8", "surrogatepass"), digest_size=8).hexdigest()


class Known:
    def __init__(self, pid):
        self.entries = []
        try:
            with open(KNOWN_FILE) as f:
                data = json.load(f)
        except FileNotFoundError:
            data = {"findings": []}
        for e in data.get("findings", []):
            if e.get("property") == pid and e.get("status") == "known":
                self.entries.append((e["id"], re.compile(e["sig"]), e.get("what", "")))

    def match(self, sig):
        for fid, rx, _ in self.entries:
            if rx.fullmatch(sig):
                return fid
        return None


class Stats:
    def __init__(self):
        self.evaluations = 0
        self.nontrivial = set()
        self.classes = {}
        self.samples = []
        self.excluded = {}
        self.known_hits = {}
        self.known_examples = {}
        self.extra = {}
        self.frozen = False

    def to_dict(self):
        return {"evaluations": self.evaluations, "nontrivial": sorted(self.nontrivial),
                "classes": self.classes, "samples": self.samples, "excluded": self.excluded,
                "known_hits": self.known_hits, "known_examples": self.known_examples, "extra": self.extra}

    @staticmethod
    def merge(dicts):
        s = Stats()
        for d in dicts:
            s.evaluations += d["evaluations"]
            s.nontrivial.update(d["nontrivial"])
            for k, v in d["classes"].items():
                s.classes[k] = s.classes.get(k, 0) + v
            for k, v in d["excluded"].items():
                s.excluded[k] = s.excluded.get(k, 0) + v
            for k, v in d["known_hits"].items():
                s.known_hits[k] = s.known_hits.get(k, 0) + v
            for k, v in d["known_examples"].items():
                s.known_examples.setdefault(k, v)
            for k, v in d["extra"].items():
                if isinstance(v, (int, float)) and isinstance(s.extra.get(k, 0), (int, float)):
                    s.extra[k] = s.extra.get(k, 0) + v
                elif isinstance(v, dict) and isinstance(s.extra.get(k, {}), dict):
                    s.extra.setdefault(k, {}).update(v)
                else:
                    s.extra.setdefault(k, v)
            s.samples.extend(d["samples"])
        return s


class Ctx:
    """Per-worker context."""

    def __init__(self, pid, tier, seed, index, nworkers, checks):
        self.pid = pid
        self.tier = tier
        self.seed = seed
        self.index = index
        self.nworkers = nworkers
        self.checks = checks
        self.stats = Stats()
        self.known = Known(pid)
        self.nl = NL()
        self.first_failure = None
        self.last_failure = None
        self._sample_every = 1

    @property
    def thorough(self):
        return self.tier == "thorough"

    def scale(self, quick, thorough):
        return thorough if self.thorough else quick

    def share(self, total):
        """This worker's share of `total` units of work."""
        base = total // self.nworkers
        return base + (1 if self.index < total % self.nworkers else 0)

    # ---- bookkeeping ---------------------------------------------------------------------------
    def count(self, case_text, nontrivial, cls=None, n=1):
        st = self.stats
        if st.frozen:
            return
        st.evaluations += n
        if nontrivial:
            st.nontrivial.add(h16(case_text))
        if cls is not None:
            st.classes[cls] = st.classes.get(cls, 0) + 1

    def cls(self, cls, n=1):
        if not self.stats.frozen:
            self.stats.classes[cls] = self.stats.classes.get(cls, 0) + n

    def sample(self, obj, cap=6):
        st = self.stats
        if st.frozen:
            return
        k = st.extra.get("_sample_seen", 0)
        st.extra["_sample_seen"] = k + 1
        # keep samples at positions 0, 1, 10, 100, 1000, ... plus the most recent
        if len(st.samples) < cap and (k < 2 or k in (10, 100, 1000, 10000, 100000)):
            st.samples.append(obj)

    def exclude(self, why, n=1):
        if not self.stats.frozen:
            self.stats.excluded[why] = self.stats.excluded.get(why, 0) + n

    def extra(self, key, n=1):
        if not self.stats.frozen:
            self.stats.extra[key] = self.stats.extra.get(key, 0) + n

    # ---- running an oracle ---------------------------------------------------------------------
    def check(self, name, case):
        """Run oracle `name` on JSON-able `case`. Returns True if it held (or hit a listed known
        finding), raises ViolationFound otherwise."""
        res = self.checks[name](self.nl, case, self)
        fails = res if isinstance(res, list) else ([res] if res is not None else [])
        bad = None
        for f in fails:
            fid = self.known.match(f.sig)
            if fid is not None:
                if not self.stats.frozen:
                    self.stats.known_hits[fid] = self.stats.known_hits.get(fid, 0) + 1
                    self.stats.known_examples.setdefault(fid, {"sig": f.sig, "detail": f.detail[:400]})
                continue
            bad = f
            break
        if bad is None:
            return True
        if os.environ.get("VERIF_COLLECT"):
            # triage mode: list every distinct unlisted failure instead of stopping at the first
            for f in fails:
                if self.known.match(f.sig) is None:
                    self.stats.known_examples.setdefault("COLLECT " + f.sig, {"sig": f.sig, "detail": f.detail[:600]})
            return True
        if bad.index is not None and isinstance(case, list):
            case = [case[bad.index]]
        payload = {"property": self.pid, "check": name, "case": case, "sig": bad.sig,
                   "detail": bad.detail, "data": bad.data}
        self.stats.frozen = True  # stop counting: shrinking re-executes the test body
        if self.first_failure is None:
            self.first_failure = payload
        self.last_failure = payload
        raise ViolationFound(payload)

    def hyp(self, strategy, body, max_examples, label=""):
        """Drive `body(case)` with Hypothesis; seeded, no database, shrinks on failure."""
        import hypothesis
        from hypothesis import HealthCheck, Phase, given, settings
        import hypothesis.internal.conjecture.engine as _eng
        _eng.MAX_SHRINKS = 300
        _eng.MAX_SHRINKING_SECONDS = float(os.environ.get("VERIF_SHRINK_SECONDS", "20"))
        # stable per-label salt: Python's hash() of str is randomised per process
        salt = int(h16(label)[:4], 16)
        seed = (self.seed * 1000003 + self.index * 7919 + salt) % (2 ** 63)

        @hypothesis.seed(seed)
        @settings(max_examples=max_examples, database=None, deadline=None, derandomize=False,
                  phases=(Phase.generate, Phase.shrink),
                  suppress_health_check=list(HealthCheck), report_multiple_bugs=False)
        @given(strategy)
        def run(case):
            try:
                body(case)
            except ViolationFound:
                raise
            except Exception as e:
                raise HarnessError(e, traceback.format_exc())

        try:
            with warnings.catch_warnings():
                warnings.simplefilter("ignore")
                run()
        except ViolationFound:
            # Hypothesis replays the minimal failing example last
            raise ViolationFound(self.last_failure)
        except Inconclusive:
            raise
        except GeneratorBug:
            raise


def isolate_abort(nl, prelude, srcs, fuel=300_000, timeout=60):
    """A batch killed the interpreter process (abort / stack overflow / allocation failure). Re-run
    the expressions one at a time, each in a fresh session after the prelude, and return the index of
    the first one that kills the process twice in a row (deterministic), else None."""
    for i, src in enumerate(srcs):
        dead = 0
        for _ in range(2):
            try:
                nl.run(list(prelude) + [src], fuel=fuel, timeout=timeout, stop_on_panic=False)
                break
            except Inconclusive as e:
                if e.kind in ("abort", "crash"):
                    dead += 1
                else:
                    break
        if dead == 2:
            return i
    return None


def isolate_hang(nl, prelude, srcs, fuel=300_000, timeout=20):
    """A batch did not answer within the watchdog. Re-run one expression at a time with a generous
    per-expression limit; return the index of the first one that exceeds it twice, else None."""
    for i, src in enumerate(srcs):
        slow = 0
        for _ in range(2):
            try:
                nl.run(list(prelude) + [src], fuel=fuel, timeout=timeout, stop_on_panic=False)
                break
            except Inconclusive as e:
                if e.kind == "hang":
                    slow += 1
                else:
                    break
        if slow == 2:
            return i
    return None


def _worker_main(modname, tier, seed, index, nworkers, q):
    import importlib
    import faulthandler
    import signal
    faulthandler.register(signal.SIGUSR1, all_threads=True)   # kill -USR1 <pid> prints where a worker is
    try:
        import resource
        soft, hard = resource.getrlimit(resource.RLIMIT_AS)
        cap = 8 << 30     # a runaway reference model ends as MemoryError (harness error, exit 2), not in the OOM killer
        resource.setrlimit(resource.RLIMIT_AS, (cap if hard == resource.RLIM_INFINITY else min(cap, hard), hard))
    except (ImportError, ValueError, OSError):
        pass
    t0 = time.time()
    ctx = None
    try:
        mod = importlib.import_module(modname)
        ctx = Ctx(mod.PID, tier, seed, index, nworkers, mod.CHECKS)
        mod.worker(ctx)
        q.put(("ok", index, ctx.stats.to_dict(), None, time.time() - t0))
    except ViolationFound as v:
        q.put(("violation", index, ctx.stats.to_dict() if ctx else Stats().to_dict(), v.payload, time.time() - t0))
    except Inconclusive as e:
        q.put(("inconclusive", index, ctx.stats.to_dict() if ctx else Stats().to_dict(),
               {"kind": e.kind, "detail": e.detail, "request": _clip(e.request)}, time.time() - t0))
    except GeneratorBug as e:
        q.put(("genbug", index, ctx.stats.to_dict() if ctx else Stats().to_dict(),
               {"detail": str(e), "trace": traceback.format_exc()}, time.time() - t0))
    except HarnessError as e:
        q.put(("error", index, ctx.stats.to_dict() if ctx else Stats().to_dict(),
               {"detail": str(e), "trace": e.trace}, time.time() - t0))
    except BaseException as e:  # harness bug
        q.put(("error", index, ctx.stats.to_dict() if ctx else Stats().to_dict(),
               {"detail": repr(e), "trace": traceback.format_exc()}, time.time() - t0))
    finally:
        if ctx is not None:
            ctx.nl.close()


def _clip(o, n=2000):
    s = json.dumps(o, default=str)
    return s if len(s) <= n else s[:n] + "..."


def write_replay(pid, payload):
    os.makedirs(REPLAY_DIR, exist_ok=True)
    name = "%s-%s.json" % (pid, h16(json.dumps(payload, sort_keys=True, default=str))[:10])
    path = os.path.join(REPLAY_DIR, name)
    with open(path, "w") as f:
        json.dump(payload, f, indent=1, sort_keys=True, default=str)
    return path


def write_evidence(mod, tier, seed, stats, wall, violations, extra_cov=None, notes=None):
    os.makedirs(EVIDENCE_DIR, exist_ok=True)
    samples = stats.samples[:12]
    cov = {
        "evaluations": stats.evaluations,
        "distinct_nontrivial": len(stats.nontrivial),
        "rule": mod.RULE,
        "samples": samples,
        "classes": dict(sorted(stats.classes.items())),
        "excluded_by_construction": stats.excluded,
        "known_finding_hits": stats.known_hits,
        "known_finding_examples": stats.known_examples,
        "exhaustive": bool(getattr(mod, "EXHAUSTIVE", False)),
    }
    for k, v in stats.extra.items():
        if not k.startswith("_"):
            cov[k] = v
    if mod.LEVEL == "translation_validation":
        cov["programs"] = stats.evaluations
        cov["disagreements_checked"] = stats.extra.get("disagreements_checked", stats.evaluations)
    if extra_cov:
        cov.update(extra_cov)
    ev = {
        "property_id": mod.PID,
        "tier": tier,
        "seed": seed,
        "level": mod.LEVEL,
        "coverage": cov,
        "assumptions": list(mod.ASSUMPTIONS),
        "wall_s": round(wall, 2),
        "violations": violations,
    }
    if notes:
        ev["notes"] = notes
    path = os.path.join(EVIDENCE_DIR, "%s.json" % mod.PID)
    tmp = path + ".tmp"
    with open(tmp, "w") as f:
        json.dump(ev, f, indent=1, sort_keys=True, default=str)
    os.replace(tmp, path)
    return path


def run_replays(mod):
    """Re-run every saved regression input for this property through its oracle, bypassing the
    generators. Returns list of (path, payload, Fail) still failing (known findings filtered)."""
    out = []
    known = Known(mod.PID)
    d = os.path.join(ROOT, "regress", mod.PID)
    if not os.path.isdir(d):
        return out, 0
    nl = NL()
    n = 0
    try:
        for name in sorted(os.listdir(d)):
            if not name.endswith(".json"):
                continue
            with open(os.path.join(d, name)) as f:
                payload = json.load(f)
            n += 1
            res = mod.CHECKS[payload["check"]](nl, payload["case"], None)
            fails = res if isinstance(res, list) else ([res] if res is not None else [])
            for fl in fails:
                if known.match(fl.sig) is None:
                    out.append((os.path.join(d, name), payload, fl))
                    break
    finally:
        nl.close()
    return out, n


def replay_file(mod, path):
    with open(path) as f:
        payload = json.load(f)
    nl = NL()
    try:
        res = mod.CHECKS[payload["check"]](nl, payload["case"], None)
    finally:
        nl.close()
    fails = res if isinstance(res, list) else ([res] if res is not None else [])
    return fails


def main_run(modname, tier, seed, nworkers=None):
    import importlib
    mod = importlib.import_module(modname)
    pid = mod.PID
    t0 = time.time()
    if nworkers is None:
        nworkers = getattr(mod, "WORKERS", 16)
    nworkers = max(1, min(nworkers, int(os.environ.get("VERIF_WORKERS", "16"))))

    # known findings banner (printed for every listed, unfixed finding of this property)
    known = Known(pid)
    for fid, rx, what in known.entries:
        print("KNOWN-FINDING: property=%s %s [%s]" % (pid, what, fid))

    # regression inputs first
    still, nreg = run_replays(mod)
    if still:
        path, payload, fl = still[0]
        stats = Stats()
        stats.evaluations = nreg
        stats.samples = [payload.get("case")]
        write_evidence(mod, tier, seed, stats, time.time() - t0, 1,
                       notes="regression input failed: %s" % fl.detail[:500])
        print("regression input fails: %s: %s" % (fl.sig, fl.detail[:2000]))
        print("VIOLATION property=%s replay=%s" % (pid, path))
        return 1

    mpctx = mp.get_context("fork")
    q = mpctx.Queue()
    procs = []
    for i in range(nworkers):
        p = mpctx.Process(target=_worker_main, args=(modname, tier, seed, i, nworkers, q))
        p.start()
        procs.append(p)
    results = []
    import queue as _queue
    got = set()
    dead_since = {}
    while len(results) < nworkers:
        try:
            r = q.get(timeout=5)
            results.append(r)
            got.add(r[1])
            continue
        except _queue.Empty:
            pass
        # a worker that has exited without delivering a result (killed by the OOM killer, a signal, os._exit) must not
        # leave the run waiting for ever: report it as a harness error (exit 2, inconclusive)
        now = time.time()
        for i, p in enumerate(procs):
            if i in got or p.is_alive():
                continue
            dead_since.setdefault(i, now)
            if now - dead_since[i] > 20:
                got.add(i)
                results.append(("error", i, Stats().to_dict(), {"detail": "worker %d exited with code %s without reporting (killed?)" % (i, p.exitcode),
                                                                  "trace": ""}, now - t0))
    for p in procs:
        p.join()
    wall = time.time() - t0
    stats = Stats.merge([r[2] for r in results])
    stats.extra["regression_inputs_replayed"] = nreg
    stats.extra["workers"] = nworkers
    # deterministic sample choice
    stats.samples = stats.samples[:12]

    viol = [r for r in results if r[0] == "violation"]
    inconc = [r for r in results if r[0] == "inconclusive"]
    errors = [r for r in results if r[0] in ("error", "genbug")]

    if viol:
        viol.sort(key=lambda r: r[1])
        payload = viol[0][3]
        path = write_replay(pid, payload)
        write_evidence(mod, tier, seed, stats, wall, len(viol), notes="violation: %s" % payload["detail"][:1000])
        print("violation detail [%s]: %s" % (payload["sig"], payload["detail"][:3000]))
        print("VIOLATION property=%s replay=%s" % (pid, path))
        return 1
    if errors:
        for r in errors:
            print("HARNESS ERROR in worker %d: %s\n%s" % (r[1], r[3]["detail"], r[3].get("trace", "")), file=sys.stderr)
        write_evidence(mod, tier, seed, stats, wall, 0, notes="harness error (inconclusive): %s" % errors[0][3]["detail"][:500])
        print("INCONCLUSIVE property=%s harness error" % pid)
        return 2
    if inconc:
        for r in inconc:
            print("INCONCLUSIVE worker %d: %s %s %s" % (r[1], r[3]["kind"], r[3]["detail"], r[3]["request"][:600]), file=sys.stderr)
        write_evidence(mod, tier, seed, stats, wall, 0, notes="inconclusive: %s" % inconc[0][3]["detail"][:500])
        print("INCONCLUSIVE property=%s %s" % (pid, inconc[0][3]["kind"]))
        return 2
    if os.environ.get("VERIF_COLLECT"):
        for k, v in sorted(stats.known_examples.items()):
            if k.startswith("COLLECT "):
                print("COLLECTED %s :: %s" % (v["sig"], v["detail"]))
    post = getattr(mod, "postcheck", None)
    if post is not None:
        msg = post(stats, tier)
        if msg:
            write_evidence(mod, tier, seed, stats, wall, 0, notes="generator defect: %s" % msg)
            print("INCONCLUSIVE property=%s generator defect: %s" % (pid, msg))
            return 2
    write_evidence(mod, tier, seed, stats, wall, 0)
    print("OK property=%s tier=%s seed=%d evaluations=%d distinct_nontrivial=%d known_hits=%s wall=%.1fs" % (
        pid, tier, seed, stats.evaluations, len(stats.nontrivial), json.dumps(stats.known_hits), wall))
    return 0


def main_replay(modname, path):
    import importlib
    mod = importlib.import_module(modname)
    fails = replay_file(mod, path)
    known = Known(mod.PID)
    rc = 0
    for f in fails:
        fid = known.match(f.sig)
        if fid:
            print("KNOWN-FINDING: property=%s %s [%s]" % (mod.PID, f.detail[:300], fid))
        else:
            print("replay fails [%s]: %s" % (f.sig, f.detail[:3000]))
            print("VIOLATION property=%s replay=%s" % (mod.PID, path))
            rc = 1
    if rc == 0:
        print("replay OK property=%s" % mod.PID)
    return rc
