"""C01 - value semantics: mutation never leaks through an alias.

history  model-based: generated statement histories over 2-5 variables (hist.py) against a Python
         model with copy-on-assignment by construction; every variable is snapshotted and compared
         after EVERY statement, plus frozen closures and values returned by calls.
calls    sweep: every pure builtin applied to a variable (1- and 2-argument forms) must leave the
         variable's value unchanged, whatever it returns or raises.
"""
import copy

from hypothesis import strategies as st

from .core import Fail, GeneratorBug
from .hist import KINDS, PRELUDE, Model, concretize
from .values import Inst, NDict, Vec, mcanon, norm, render

PID = "C01"
LEVEL = "exploration"
RULE = ("stateful histories of 5-40 statements built from the current model state (valid paths by construction); "
        "non-trivial = the history mutates a variable that earlier took part in an alias (copied into another variable, "
        "container slot, closure, struct field or function argument) and all holders are compared afterwards; "
        "distinct by the concrete statement list. Call sweep: non-trivial = the builtin returned a value (did not just "
        "reject its arguments); distinct by (builtin, value kind, form)")
ASSUMPTIONS = [
    "integers are small (arithmetic is C06's business); strings ASCII; statements whose documented outcome is an error are not generated",
    "op-assign follows the README contract (slot reads null while the operator runs)",
    "a panic inside a builtin call ends that history without a verdict (C14 owns panics) and is counted as excluded",
    "dictionary iteration order never enters (canonical sort)",
]

DENY = set("""print echo write debug input read read_bytes interact interact_lines flush read_file read_file? read_file_bytes
read_file_bytes? write_file append_file list_files run_process sleep time now random random_bytes random_range eval vars
assert throw' __internal_debug read_compressed path_join path_parent request memoize""".split())


def build_script(ops):
    m = Model()
    steps = [{"src": s} for s in PRELUDE]
    meta = []
    for op in ops:
        c = concretize(m, op)
        if c is None:
            continue
        names = m.names() + ["tmp"]
        snap = {n: mcanon(v) for n, v in m.vars.items()}
        if "expect_tmp" in c:
            snap["tmp"] = mcanon(c["expect_tmp"])
        accept = None
        if "accept" in c:
            an, avals = c["accept"]
            snap.pop(an, None)
            accept = (an, [mcanon(v) for v in avals])
        steps.append({"src": c["src"], "snap": names})
        meta.append({"c": c, "snap": snap, "getters": None, "accept": accept})
        if "reset" in c:
            rn, rv = c["reset"]
            m.vars[rn] = copy.deepcopy(rv)
            steps.append({"src": "%s = %s" % (rn, render(rv)), "snap": names})
            meta.append({"c": {"src": steps[-1]["src"], "cls": "reset"}, "snap": {n: mcanon(v) for n, v in m.vars.items()},
                         "getters": None, "accept": None})
        if m.getters:
            gs = sorted(m.getters)
            steps.append({"src": "[%s]" % ", ".join("%s()" % g for g in gs)})
            meta.append({"c": {"src": steps[-1]["src"], "cls": "getters"}, "snap": None,
                         "getters": [mcanon(m.getters[g]) for g in gs]})
    return steps, meta


def is_nontrivial(meta):
    aliased = False
    for mt in meta:
        c = mt["c"]
        if c.get("alias"):
            aliased = True
        elif aliased and c["cls"].split(":")[0] in ("setidx", "opassign", "every", "pop", "remove", "swap", "consume", "destructure"):
            return True
    return False


def check_history(nl, case, ctx=None):
    steps, meta = build_script(case["ops"])
    if not meta:
        return None
    results = nl.run(steps, fuel=400_000, timeout=60)
    srcs = [s["src"] for s in steps]
    np_ = len(PRELUDE)
    for i in range(np_):
        if i < len(results) and results[i]["status"] != "ok":
            raise GeneratorBug("prelude failed: %s -> %s" % (srcs[i], results[i]))
    fail = None
    done = 0
    for j, mt in enumerate(meta):
        i = np_ + j
        c = mt["c"]
        if i >= len(results):
            break
        r = results[i]
        so_far = "; ".join(srcs[np_:i + 1])
        if r["status"] == "parse_error":
            raise GeneratorBug("does not parse: %s" % srcs[i])
        if r["status"] == "panic":
            if ctx is not None:
                ctx.exclude("panic_in_history(C14)")
            break
        if r["status"] != "ok":
            fail = Fail("C01:%s:%s" % (c["cls"], r["status"]), "statement %r failed: %s; history: %s" % (srcs[i], {k: r.get(k) for k in ("status", "msg")}, so_far))
            break
        done += 1
        if mt["getters"] is not None:
            got = [norm(x) for x in r["value"]["l"]]
            if got != mt["getters"]:
                fail = Fail("C01:closure:leak", "captured values changed: expected %s got %s; history: %s" % (mt["getters"], got, so_far))
                break
            continue
        snap = r["snap"]["vars"]
        if mt.get("accept"):
            an, avals = mt["accept"]
            ent = snap.get(an)
            got = norm(ent["v"]) if ent and "v" in ent else None
            if got not in avals:
                fail = Fail("C01:%s:beyond_addressed_slots" % c["cls"],
                            "after the caught failure in %r variable %s = %s; only the addressed slots may differ from before, acceptable: %s; history: %s"
                            % (srcs[i], an, got, avals[:4], so_far))
                break
        for name, want in mt["snap"].items():
            if name == "tmp" and c.get("opaque_tmp"):
                continue
            ent = snap.get(name)
            if ent is None or "v" not in ent:
                fail = Fail("C01:%s:missing" % c["cls"], "variable %s missing after %r; history: %s" % (name, srcs[i], so_far))
                break
            got = norm(ent["v"])
            if got != want:
                fail = Fail("C01:%s:mismatch" % c["cls"], "after %r variable %s = %s, copy-on-assignment model says %s; history: %s"
                            % (srcs[i], name, got, want, so_far))
                break
        if fail:
            break
    if ctx is not None:
        nt = is_nontrivial(meta[:done]) if done else False
        ctx.count("; ".join(srcs[np_:]), nt)
        for mt in meta[:done]:
            ctx.cls(mt["c"]["cls"])
        ctx.extra("statements", done)
        if nt:
            ctx.sample({"history": srcs[np_:]})
    return fail


# ---- call sweep ----------------------------------------------------------------------------------------

CALL_VALUES = [
    [3, 1, 2], [[1, 2], [3]], [], NDict([("a", 1), ("b", [2])]), NDict([(1, 2)], default=0, has_default=True),
    "hello", "", Vec([1, 2]), bytes([1, 2]), 5, Inst("Foo", [[1], 2]), None, [NDict([("k", [1])])], ["b", "a"],
]
CALL_ARGS = ["1", "[0]", '"a"', "(\\t -> t)", "null", "2"]


def check_calls(nl, case, ctx=None):
    """case: {f: name, vi: index into CALL_VALUES}"""
    f = case["f"]
    val = CALL_VALUES[case["vi"]]
    want = mcanon(val)
    fn = "(%s)" % f
    forms = ["%s(x)" % fn] + ["%s(x, %s)" % (fn, a) for a in CALL_ARGS] + ["%s(%s, x)" % (fn, a) for a in CALL_ARGS] \
        + ["%s(x, x)" % fn, "x . %s" % fn, "x %s x" % f]
    steps = [{"src": "struct Foo(fa, fb)"}, {"src": "x := %s" % render(val)}]
    for fm in forms:
        steps.append({"src": "try (%s) catch e -> \"err\"" % fm, "snap": ["x"]})
    results = nl.run(steps, fuel=300_000, timeout=60)
    fails = []
    for st_, r in zip(steps[2:], results[2:]):
        if r["status"] == "parse_error":
            if ctx is not None:
                ctx.exclude("call_form_not_parseable")
            continue
        if r["status"] == "panic":
            if ctx is not None:
                ctx.exclude("panic_in_call(C14)")
            break
        if r["status"] == "fuel":
            if ctx is not None:
                ctx.exclude("fuel_in_call")
            continue
        returned = r["status"] == "ok" and r.get("value") != {"s": "err"}
        if ctx is not None:
            ctx.count("%s|%d|%s" % (f, case["vi"], st_["src"]), returned, "call:%s" % ("value" if returned else "rejected"))
            if returned:
                ctx.sample({"x": render(val), "call": st_["src"]})
        ent = r.get("snap", {}).get("vars", {}).get("x")
        got = norm(ent["v"]) if ent and "v" in ent else None
        if got != want:
            fails.append(Fail("C01:call:%s" % f, "x := %s; %s; afterwards x = %s" % (render(val), st_["src"], got)))
            break
    return fails


CHECKS = {"history": check_history, "calls": check_calls}


def r16(nwords=16):
    """uniform 16-bit choices (st.integers is heavily skewed towards small values; bytes are uniform
    and still shrink towards zero)"""
    return st.binary(min_size=2 * nwords, max_size=2 * nwords).map(
        lambda b: [b[i] << 8 | b[i + 1] for i in range(0, len(b), 2)])


def s_history(maxlen):
    op = st.fixed_dictionaries({"k": st.sampled_from(KINDS), "r": r16()})
    first = st.fixed_dictionaries({"k": st.just("decl"), "r": r16()})
    return st.builds(lambda a, b, rest: {"ops": [a, b] + rest}, first, first, st.lists(op, min_size=8, max_size=maxlen))


def worker(ctx):
    # 1. call sweep (exhaustive over builtins x value pool), split across workers
    globs = [g["name"] for g in ctx.nl.globals() if g["kind"] in ("builtin", "type") and g["name"] not in DENY
             and not g["name"].startswith("__internal")]
    jobs = [(f, vi) for f in globs for vi in range(len(CALL_VALUES))]
    for n, (f, vi) in enumerate(jobs):
        if n % ctx.nworkers == ctx.index:
            ctx.check("calls", {"f": f, "vi": vi})
    # 2. histories
    ctx.hyp(s_history(ctx.scale(38, 60)), lambda c: ctx.check("history", c), ctx.share(ctx.scale(8000, 160000)), label="c01")


def postcheck(stats, tier):
    need = ["alias:var", "alias:list", "alias:dict", "alias:slot", "alias:closure", "alias:struct", "every:set", "every:op",
            "remove:index:d1", "remove:slice:d1", "remove:key:d1", "update:list", "update:NDict", "call:usermut", "call:builtin", "destructure", "fail:every_op", "fail:opassign", "fail:setidx_oob", "fail:remove_pop_oob"]
    missing = [c for c in need if not stats.classes.get(c)]
    for pre in ("setidx:", "opassign:", "pop:", "swap:", "consume:"):
        if not any(k.startswith(pre) for k in stats.classes):
            missing.append(pre + "*")
    return "statement classes never generated: %s" % missing if missing else None
