"""Model-based histories of mutating statements (C01, reused by C02/C14).

A history is a list of abstract operations {"k": kind, "r": [ints]}. `concretize` maps an abstract
operation to a concrete statement that is valid in the *current model state* (construction, not
rejection) and applies its copy-on-assignment effect to the model. The mapping is a pure function of
the abstract operation and the model, so a history shrinks and replays as plain JSON.
"""
import copy

from .values import Inst, NDict, Vec, render, render_str

NAMES = ["a", "b", "c", "d", "e"]
STRUCT = ("Foo", ["fa", "fb"])
PRELUDE = [
    "struct Foo(fa, fb)",
    "pair := \\p, q -> [p, q]",
    "setat := \\s, i, w -> (s[i] = w; s)",
    "keep := \\v -> \\-> v",
    "tmp := null",
]
STR_ALPHA = "abcxyz"


class R:
    """deterministic stream of choices from a list of ints"""

    def __init__(self, ints):
        self.ints = list(ints)
        self.i = 0

    def next(self):
        v = self.ints[self.i] if self.i < len(self.ints) else 0
        self.i += 1
        return v

    def below(self, n):
        """monotone map of a 16-bit draw onto range(n)"""
        if n <= 0:
            return 0
        return (self.next() * n) >> 16

    def pick(self, xs):
        return xs[self.below(len(xs))]


def gen_scalar(r):
    k = r.below(5)
    if k <= 1:
        return r.below(7) - 2
    if k == 2:
        return "".join(STR_ALPHA[r.below(len(STR_ALPHA))] for _ in range(r.below(4)))
    if k == 3:
        return None
    return r.below(100)


def gen_value(r, depth):
    if depth <= 0:
        return gen_scalar(r)
    k = r.below(12)
    if k <= 2:
        return gen_scalar(r)
    if k <= 5:
        return [gen_value(r, depth - 1) for _ in range(r.below(4))]
    if k == 6:
        return NDict([(gen_key(r), gen_value(r, depth - 1)) for _ in range(r.below(4))])
    if k == 7:
        return NDict([(gen_key(r), gen_value(r, depth - 1)) for _ in range(r.below(3))], default=gen_default(r), has_default=True)
    if k == 8:
        return Vec([r.below(9) - 2 for _ in range(r.below(4))])
    if k == 9:
        return bytes(r.below(256) for _ in range(r.below(4)))
    if k == 10:
        return Inst(STRUCT[0], [gen_value(r, depth - 1), gen_value(r, depth - 1)])
    return [[r.below(5) for _ in range(1 + r.below(3))] for _ in range(1 + r.below(3))]  # rows


def gen_key(r):
    return r.pick([0, 1, 2, "k", "j", "", 7])


def gen_default(r):
    return r.pick([0, [], "", None, [1, 2, 3], [[1], 2]])


def is_container(v):
    return isinstance(v, (list, NDict, Vec, bytes, Inst, str))


def children(v):
    """[(key, child)] addressable sub-slots of a value"""
    if isinstance(v, list):
        return [(i, x) for i, x in enumerate(v)]
    if isinstance(v, NDict):
        return [(k, x) for k, x in v.items]
    if isinstance(v, Inst):
        return [(("f", i), x) for i, x in enumerate(v.fields)]
    return []


def get_path(v, path):
    for k in path:
        v = get_slot(v, k)
    return v


def get_slot(v, k):
    if isinstance(v, NDict):
        i = v.find(k)
        if i < 0:
            if v.has_default:
                return copy.deepcopy(v.default)
            raise KeyError(k)
        return v.items[i][1]
    if isinstance(v, Inst):
        return v.fields[k[1]]
    if isinstance(v, Vec):
        return v.xs[k]
    if isinstance(v, (bytes, str)):
        return v[k]
    return v[k]


def set_path(root, path, val):
    """returns new root with slot at path replaced (root is mutated in place where possible)"""
    if not path:
        return val
    k = path[0]
    if isinstance(root, NDict):
        if len(path) == 1:
            root.set(k, val)
        else:
            root.set(k, set_path(get_slot(root, k), path[1:], val))
        return root
    if isinstance(root, Inst):
        root.fields[k[1]] = set_path(root.fields[k[1]], path[1:], val)
        return root
    if isinstance(root, Vec):
        assert len(path) == 1
        root.xs[k] = val
        return root
    if isinstance(root, bytes):
        assert len(path) == 1
        b = bytearray(root)
        b[k] = val
        return bytes(b)
    if isinstance(root, str):
        assert len(path) == 1
        k2 = k if k >= 0 else len(root) + k
        return root[:k2] + val + root[k2 + 1:]
    root[k] = set_path(root[k], path[1:], val)
    return root


def render_key(k):
    if isinstance(k, tuple):
        return STRUCT[1][k[1]]
    if isinstance(k, int):
        return "(0-%d)" % -k if k < 0 else str(k)
    return render_str(k)


def render_path(name, path):
    return name + "".join("[%s]" % render_key(k) for k in path)


def walk(r, v, maxdepth, want=None, allow_root=True):
    """choose a path into v (list of keys) by random descent; `want(value)` filters the final slot.
    Returns None if nothing suitable."""
    cands = []

    def rec(val, path, depth):
        if (path or allow_root) and (want is None or want(val)):
            cands.append(path)
        if depth >= maxdepth:
            return
        for k, ch in children(val):
            # negative index spelling for list elements sometimes
            rec(ch, path + [k], depth + 1)
    rec(v, [], 0)
    if not cands:
        return None
    return list(cands[r.below(len(cands))])


def negify(r, root, path):
    """randomly respell list indices as negative ones"""
    out = []
    v = root
    for n, k in enumerate(path):
        if isinstance(v, list) and isinstance(k, int) and r.below(4) == 0:
            out.append(k - len(v))
        else:
            out.append(k)
        if n + 1 < len(path):
            v = get_slot(v, k)
    return out


class Model:
    def __init__(self):
        self.vars = {}          # name -> value (tracked)
        self.getters = {}       # name -> frozen value returned by name()
        self.alias_log = []     # (holder, source) pairs injected

    def names(self):
        return sorted(self.vars)

    def containers(self):
        return [n for n in self.names() if is_container(self.vars[n])]


def concretize(m, op):
    """-> dict(src=..., cls=..., aliasing=bool, check=[extra (expr, expected model value)]) or None.
    Applies the effect to the model."""
    r = R(op["r"])
    k = op["k"]
    V = m.vars
    dc = copy.deepcopy

    def fresh_or_existing():
        return r.pick(NAMES)

    def bind(name, val):
        decl = name not in V
        V[name] = val
        return ":=" if decl else "="

    if k == "decl":
        name = fresh_or_existing()
        val = gen_value(r, 3)
        opr = bind(name, val)
        return {"src": "%s %s %s" % (name, opr, render(val)), "cls": "decl"}

    if k == "alias":
        if not V:
            return None
        src_name = r.pick(m.names())
        how = r.below(6)
        val = V[src_name]
        name = fresh_or_existing()
        if how == 0:
            opr = bind(name, dc(val))
            return {"src": "%s %s %s" % (name, opr, src_name), "cls": "alias:var", "alias": True}
        if how == 1:
            opr = bind(name, [dc(val), dc(val)])
            return {"src": "%s %s [%s, %s]" % (name, opr, src_name, src_name), "cls": "alias:list", "alias": True}
        if how == 2:
            opr = bind(name, NDict([("k", dc(val))]))
            return {"src": '%s %s {"k": %s}' % (name, opr, src_name), "cls": "alias:dict", "alias": True}
        if how == 3:
            # store into an existing container slot (possibly of itself: self-containment by value)
            cs = [n for n in m.names() if isinstance(V[n], (list, NDict, Inst))]
            if not cs:
                return None
            tgt = r.pick(cs)
            path = walk(r, V[tgt], 2, want=lambda x: True, allow_root=False)
            if not path:
                return None
            newv = dc(val)
            V[tgt] = set_path(V[tgt], path, newv)
            return {"src": "%s = %s" % (render_path(tgt, path), src_name), "cls": "alias:slot" + (":self" if tgt == src_name else ""), "alias": True}
        if how == 4:
            g = "g" + name
            if g in m.getters:
                return None
            m.getters[g] = dc(val)
            return {"src": "%s := keep(%s)" % (g, src_name), "cls": "alias:closure", "alias": True}
        # struct field
        opr = bind(name, Inst(STRUCT[0], [dc(val), 0]))
        return {"src": "%s %s Foo(%s, 0)" % (name, opr, src_name), "cls": "alias:struct", "alias": True}

    if k == "setidx":
        cs = m.containers()
        if not cs:
            return None
        name = r.pick(cs)
        root = V[name]
        parent = walk(r, root, 2, want=lambda x: is_container(x) and (len(children(x)) > 0 or isinstance(x, NDict) or (isinstance(x, (Vec, bytes, str)) and len(x.xs if isinstance(x, Vec) else x) > 0)))
        if parent is None:
            return None
        pv = get_path(root, parent)
        if isinstance(pv, list):
            key = r.below(len(pv))
            val = gen_value(r, 2)
        elif isinstance(pv, NDict):
            key = gen_key(r) if (r.below(2) == 0 or not pv.items) else r.pick(pv.keys())
            val = gen_value(r, 2)
        elif isinstance(pv, Inst):
            key = ("f", r.below(len(pv.fields)))
            val = gen_value(r, 2)
        elif isinstance(pv, Vec):
            key = r.below(len(pv.xs))
            val = r.below(50) - 10
        elif isinstance(pv, bytes):
            key = r.below(len(pv))
            val = r.below(256)
        else:
            key = r.below(len(pv))
            val = STR_ALPHA[r.below(len(STR_ALPHA))]
        path = parent + [key]
        spath = negify(r, root, path)
        V[name] = set_path(root, path, dc(val))
        return {"src": "%s = %s" % (render_path(name, spath), render(val)), "cls": "setidx:%s:d%d" % (type(pv).__name__, len(path))}

    if k == "opassign":
        if not V:
            return None
        name = r.pick(m.names())
        root = V[name]
        path = walk(r, root, 3, want=lambda x: isinstance(x, (int, list, str, NDict)) and not isinstance(x, bool))
        if path is None:
            return None
        # a path through a string/bytes/vector leaf is not generated (children() stops at them)
        old = get_path(root, path)
        if isinstance(old, int):
            f, arg, new = r.pick([("+", 3, old + 3), ("max", 4, max(old, 4)), ("*", 2, old * 2), ("-", 1, old - 1), ("pair", 5, [old, 5])])
            arg_src = str(arg)
        elif isinstance(old, list):
            which = r.below(4)
            if which == 0:
                v = gen_value(r, 1)
                f, arg_src, new = "append", render(v), old + [v]
            elif which == 1:
                v = [gen_scalar(r) for _ in range(r.below(3))]
                f, arg_src, new = "++", render(v), old + v
            elif which == 2:
                v = gen_scalar(r)
                f, arg_src, new = "+.", render(v), old + [v]
            else:
                v = gen_scalar(r)
                f, arg_src, new = "pair", render(v), [old, v]
        elif isinstance(old, str):
            v = r.pick(["", "q", "zz", 5])
            f, arg_src, new = "$", render(v), old + str(v)
        else:
            which = r.below(2)
            if which == 0:
                kk = gen_key(r)
                new = dc(old)
                new.set(kk, None)  # BUILTINS.md: "Add key with value null" (overwrites)
                f, arg_src = "|.", render(kk)
            else:
                kk, vv = gen_key(r), gen_scalar(r)
                new = dc(old)
                new.set(kk, vv)
                f, arg_src = "||", "{%s: %s}" % (render(kk), render(vv))
        spath = negify(r, root, path)
        V[name] = set_path(root, path, dc(new))
        return {"src": "%s %s= %s" % (render_path(name, spath), f, arg_src), "cls": "opassign:%s:d%d" % (f, len(path))}

    if k == "defop":
        # op-assign through a dict default: the slot does not exist yet
        cands = []
        for n in m.names():
            p = walk(R([r.next()]), V[n], 2, want=lambda x: isinstance(x, NDict) and x.has_default and x.default in (0, [], ""))
            if p is not None:
                cands.append((n, p))
        if not cands:
            return None
        name, parent = cands[r.below(len(cands))]
        d = get_path(V[name], parent)
        key = r.pick(["new", "k", 5, 6])
        old = dc(d.get(key)) if d.has(key) else dc(d.default)
        if isinstance(old, int) and not isinstance(old, bool):
            f, arg_src, new = "+", "2", old + 2
        elif isinstance(old, list):
            f, arg_src, new = "append", "7", old + [7]
        elif isinstance(old, str):
            f, arg_src, new = "$", '"s"', old + "s"
        else:
            return None
        V[name] = set_path(V[name], parent + [key], new)
        return {"src": "%s %s= %s" % (render_path(name, parent + [key]), f, arg_src), "cls": "opassign:default:%s" % f}

    if k == "every":
        cs = m.containers()
        if not cs:
            return None
        name = r.pick(cs)
        root = V[name]
        opish = r.below(2)
        want = (lambda x: isinstance(x, list) and all(isinstance(e, int) and not isinstance(e, bool) for e in x)) if opish else (lambda x: isinstance(x, list))
        path = walk(r, root, 2, want=want)
        if path is None:
            return None
        lst = get_path(root, path)
        n = len(lst)
        lo = r.below(n + 2) - 1
        hi = r.below(n + 2) - 1
        lo_s = "" if r.below(4) == 0 else str(lo) if lo >= 0 else "(0-%d)" % -lo
        hi_s = "" if r.below(4) == 0 else str(hi) if hi >= 0 else "(0-%d)" % -hi
        sl = slice(None if lo_s == "" else lo, None if hi_s == "" else hi)
        idxs = list(range(n))[sl]
        new = list(lst)
        if opish:
            for i in idxs:
                new[i] = new[i] + 10
            stmt = "every %s[%s:%s] += 10" % (render_path(name, path), lo_s, hi_s)
            cls = "every:op"
        else:
            v = gen_value(r, 1)
            for i in idxs:
                new[i] = dc(v)
            stmt = "every %s[%s:%s] = %s" % (render_path(name, path), lo_s, hi_s, render(v))
            cls = "every:set"
        V[name] = set_path(root, path, new)
        return {"src": stmt, "cls": cls}

    if k == "everydeep":
        # the slice is not the last step of the path: every x[lo:hi][j] = v / every x[lo:hi][j:] = v writes INSIDE each element
        cs = m.containers()
        if not cs:
            return None
        name = r.pick(cs)
        root = V[name]
        path = walk(r, root, 2, want=lambda x: isinstance(x, list) and len(x) > 0 and all(isinstance(e, list) and len(e) > 0 for e in x))
        if path is None:
            return None
        lst = get_path(root, path)
        n = len(lst)
        lo = r.below(n + 1)
        hi = lo + r.below(n - lo + 1)
        lo_s = "" if (lo == 0 and r.below(2)) else str(lo)
        hi_s = "" if (hi == n and r.below(2)) else str(hi)
        idxs = list(range(lo, hi))
        m_ = min(len(e) for e in lst)
        j = r.below(m_)
        v = gen_value(r, 1)
        new = [list(e) for e in lst]
        if r.below(3) == 0:
            for i in idxs:
                new[i] = new[i][:j] + [dc(v) for _ in new[i][j:]]
            inner = "[%d:]" % j
        else:
            for i in idxs:
                new[i][j] = dc(v)
            inner = "[%d]" % j
        V[name] = set_path(root, path, new)
        return {"src": "every %s[%s:%s]%s = %s" % (render_path(name, path), lo_s, hi_s, inner, render(v)), "cls": "every:deep"}

    if k == "opassign_selfmut":
        # the right-hand side itself mutates the target: the operator still combines the value read BEFORE the
        # right-hand side ran with the right-hand side's result
        cs = m.containers()
        if not cs:
            return None
        name = r.pick(cs)
        root = V[name]
        path = walk(r, root, 2, want=lambda x: isinstance(x, list) and len(x) > 0)
        if path is None:
            return None
        lst = get_path(root, path)
        tgt = render_path(name, path)
        if r.below(2):
            stmt, new = "%s ++= [pop %s]" % (tgt, tgt), list(lst) + [dc(lst[-1])]
        else:
            stmt, new = "%s ++= [remove %s[0]]" % (tgt, tgt), list(lst) + [dc(lst[0])]
        V[name] = set_path(root, path, new)
        return {"src": stmt, "cls": "opassign:rhs_mutates_target"}

    if k == "everyvars":
        if len(V) < 2:
            return None
        n1, n2 = r.pick(m.names()), r.pick(m.names())
        if n1 == n2:
            return None
        v = gen_value(r, 2)
        V[n1], V[n2] = dc(v), dc(v)
        return {"src": "every %s, %s = %s" % (n1, n2, render(v)), "cls": "every:vars"}

    if k == "pop":
        cs = m.containers()
        if not cs:
            return None
        name = r.pick(cs)
        root = V[name]
        path = walk(r, root, 3, want=lambda x: isinstance(x, list) and len(x) > 0)
        if path is None:
            return None
        lst = get_path(root, path)
        res = lst[-1]
        V[name] = set_path(root, path, lst[:-1])
        tgt = r.pick(NAMES)
        if tgt == name:
            return {"src": "tmp = pop %s" % render_path(name, path), "cls": "pop:d%d" % len(path), "expect_tmp": dc(res)}
        opr = bind(tgt, dc(res))
        return {"src": "%s %s pop %s" % (tgt, opr, render_path(name, path)), "cls": "pop:d%d" % len(path)}

    if k == "remove":
        cs = m.containers()
        if not cs:
            return None
        name = r.pick(cs)
        root = V[name]
        path = walk(r, root, 3, want=lambda x: (isinstance(x, list) and len(x) > 0) or (isinstance(x, NDict) and len(x) > 0))
        if path is None:
            return None
        cont = get_path(root, path)
        if isinstance(cont, NDict):
            key = r.pick(cont.keys())
            newc = dc(cont)
            res = newc.remove(key)
            sel = "[%s]" % render_key(key)
            cls = "remove:key"
        elif r.below(3) == 0:
            n = len(cont)
            lo, hi = r.below(n + 1), r.below(n + 1)
            res = cont[lo:hi]
            newc = cont[:lo] + cont[hi:] if lo < hi else list(cont)
            sel = "[%d:%d]" % (lo, hi)
            cls = "remove:slice"
        else:
            i = r.below(len(cont))
            res = cont[i]
            newc = cont[:i] + cont[i + 1:]
            sel = "[%s]" % (str(i) if r.below(3) else "(0-%d)" % (len(cont) - i))
            cls = "remove:index"
        V[name] = set_path(root, path, newc)
        return {"src": "tmp = remove %s%s" % (render_path(name, path), sel), "cls": "%s:d%d" % (cls, len(path) + 1), "expect_tmp": dc(res)}

    if k == "swap":
        if not V:
            return None
        n1, n2 = r.pick(m.names()), r.pick(m.names())
        p1 = walk(r, V[n1], 2) or []
        p2 = walk(r, V[n2], 2) or []
        if n1 == n2:
            # only disjoint paths within the same variable
            if not p1 or not p2 or p1[:len(p2)] == p2 or p2[:len(p1)] == p1:
                return None
        v1, v2 = dc(get_path(V[n1], p1)), dc(get_path(V[n2], p2))
        V[n1] = set_path(V[n1], p1, v2)
        V[n2] = set_path(V[n2], p2, v1)
        return {"src": "swap %s, %s" % (render_path(n1, p1), render_path(n2, p2)), "cls": "swap:d%d,d%d%s" % (len(p1), len(p2), ":same" if n1 == n2 else "")}

    if k == "defaultmut":
        # pop / remove / consume addressed through a key that is ABSENT from a dict with a container default: the entry is
        # created from a copy of the default and only that copy changes; the default itself (seen through other absent keys) stays
        cands = []
        for n in m.names():
            pth = walk(R([r.next()]), V[n], 2, want=lambda x: isinstance(x, NDict) and x.has_default and isinstance(x.default, list) and len(x.default) > 0)
            if pth is not None:
                cands.append((n, pth))
        if not cands:
            return None
        name, path = cands[r.below(len(cands))]
        d = get_path(V[name], path)
        absent = [kk for kk in [0, 1, 2, "k", "j", "", 7, 5, "z"] if d.find(kk) < 0]
        if not absent:
            return None
        key = r.pick(absent)
        dflt = dc(d.default)
        which = r.below(3)
        tgt = render_path(name, path + [key])
        if which == 0:
            src, res, newv = "tmp = pop %s" % tgt, dflt[-1], dflt[:-1]
        elif which == 1:
            src, res, newv = "tmp = remove %s[0]" % tgt, dflt[0], dflt[1:]
        else:
            src, res, newv = "tmp = consume %s" % tgt, dflt, None
        V[name] = set_path(V[name], path + [key], newv)
        return {"src": src, "cls": "defaultmut:%d" % which, "expect_tmp": res}

    if k == "consume":
        if not V:
            return None
        name = r.pick(m.names())
        path = walk(r, V[name], 2) or []
        res = dc(get_path(V[name], path))
        V[name] = set_path(V[name], path, None)
        return {"src": "tmp = consume %s" % render_path(name, path), "cls": "consume:d%d" % len(path), "expect_tmp": res}

    if k == "update":
        cs = [n for n in m.names() if isinstance(V[n], (list, NDict, Inst)) and (not isinstance(V[n], list) or len(V[n]) > 0)]
        if not cs:
            return None
        name = r.pick(cs)
        base = V[name]
        new = dc(base)
        parts = []
        for _ in range(1 + r.below(2)):
            if isinstance(base, list):
                key = r.below(len(base))
            elif isinstance(base, NDict):
                key = gen_key(r)
            else:
                key = ("f", r.below(2))
            v = gen_value(r, 1)
            new = set_path(new, [key], dc(v))
            parts.append("%s = %s" % (render_key(key), render(v)))
        tgt = r.pick(NAMES)
        opr = bind(tgt, new)
        return {"src": "%s %s %s{%s}" % (tgt, opr, name, ", ".join(parts)), "cls": "update:%s" % type(base).__name__, "alias": tgt != name}

    if k == "destructure":
        cs = [n for n in m.names() if isinstance(V[n], list) and len(V[n]) > 0]
        if not cs or not V:
            return None
        name = r.pick(cs)
        i = r.below(len(V[name]))
        other = r.pick(m.names())
        if other == name:
            return None
        v1, v2 = gen_value(r, 1), gen_value(r, 1)
        V[other] = dc(v1)
        V[name] = set_path(V[name], [i], dc(v2))
        return {"src": "%s, %s[%d] = %s, %s" % (other, name, i, render(v1), render(v2)), "cls": "destructure"}

    if k == "callmut":
        # pass to a user function that mutates its parameter and returns it
        cs = [n for n in m.names() if isinstance(V[n], list) and len(V[n]) > 0]
        if not cs:
            return None
        name = r.pick(cs)
        i = r.below(len(V[name]))
        v = gen_scalar(r)
        new = dc(V[name])
        new[i] = v
        tgt = r.pick(NAMES)
        if tgt == name:
            return {"src": "tmp = setat(%s, %d, %s)" % (name, i, render(v)), "cls": "call:usermut", "expect_tmp": new, "alias": True}
        opr = bind(tgt, new)
        return {"src": "%s %s setat(%s, %d, %s)" % (tgt, opr, name, i, render(v)), "cls": "call:usermut", "alias": True}

    if k == "callbuiltin":
        if not V:
            return None
        name = r.pick(m.names())
        f = r.pick(BUILTIN_CALLS)
        return {"src": "tmp = try (%s) catch e -> \"err\"" % f.replace("%(x)s", name), "cls": "call:builtin", "opaque_tmp": True, "alias": True}

    if k == "failop":
        # a statement that raises part-way, inside try/catch. Only the addressed slots may differ from
        # before (updated prefix / README's transient null); everything else must be unchanged.
        which = r.below(4)
        if which == 0:
            cands = []
            for n in m.names():
                p = walk(R([r.next()]), V[n], 2, want=lambda x: isinstance(x, list) and len(x) >= 2 and all(isinstance(e, int) and not isinstance(e, bool) for e in x))
                if p is not None:
                    cands.append((n, p))
            if not cands:
                return None
            name, path = cands[r.below(len(cands))]
            lst = list(get_path(V[name], path))
            n_ = len(lst)
            pz = r.below(n_)
            lst[pz] = "s"
            V[name] = set_path(V[name], path, list(lst))
            before = dc(V[name])
            accept = []
            for j in range(pz + 1):
                for slot in ("s", None):
                    cand = list(lst)
                    for i in range(j):
                        cand[i] = cand[i] + 10
                    cand[pz] = slot
                    accept.append(set_path(dc(before), path, cand))
            src = "%s = \"s\"; try (every %s[:] += 10) catch e -> null" % (render_path(name, path + [pz]), render_path(name, path))
            return {"src": src, "cls": "fail:every_op", "accept": (name, accept), "reset": (name, before)}
        if which == 1:
            if not V:
                return None
            name = r.pick(m.names())
            path = walk(r, V[name], 3, want=lambda x: isinstance(x, int) and not isinstance(x, bool))
            if path is None:
                return None
            before = dc(V[name])
            accept = [dc(before), set_path(dc(before), path, None)]
            src = "try (%s append= 1) catch e -> null" % render_path(name, path)
            return {"src": src, "cls": "fail:opassign", "accept": (name, accept), "reset": (name, before)}
        if which == 2 and r.below(2) == 0:
            # out-of-range slot assignment into a string / vector / bytes (at any depth): must change nothing
            cands = []
            for n in m.names():
                p = walk(R([r.next()]), V[n], 2, want=lambda x: isinstance(x, (str, Vec, bytes)), allow_root=True)
                if p is not None:
                    cands.append((n, p))
            if cands:
                name, path = cands[r.below(len(cands))]
                tgtv = get_path(V[name], path)
                ln = len(tgtv.xs) if isinstance(tgtv, Vec) else len(tgtv)
                before = dc(V[name])
                idx = ln + r.below(3) if r.below(3) else -(ln + 1 + r.below(2))
                val = "\"x\"" if isinstance(tgtv, str) else "5"
                src = "try (%s[%s] = %s) catch e -> null" % (render_path(name, path), idx if idx >= 0 else "(0-%d)" % -idx, val)
                return {"src": src, "cls": "fail:setidx_oob_" + type(tgtv).__name__.lower(), "accept": (name, [dc(before)]), "reset": (name, before)}
        cs = [n for n in m.names() if isinstance(V[n], (list, NDict, Inst))]
        if not cs:
            return None
        name = r.pick(cs)
        path = walk(r, V[name], 2, want=lambda x: isinstance(x, list))
        if path is None:
            return None
        lst = get_path(V[name], path)
        before = dc(V[name])
        tgt = render_path(name, path)
        if which == 2:
            src = "try (%s[%d] = 5) catch e -> null" % (tgt, len(lst) + 1 + r.below(3))
            cls = "fail:setidx_oob"
        else:
            src = r.pick(["try (remove %s[%d]) catch e -> null" % (tgt, len(lst) + r.below(3)),
                          "try (remove %s[(0-%d)]) catch e -> null" % (tgt, len(lst) + 1),
                          "try (%s[%d] += 1) catch e -> null" % (tgt, len(lst)),
                          "try (pop %s[%d]) catch e -> null" % (tgt, len(lst))])
            cls = "fail:remove_pop_oob"
        return {"src": src, "cls": cls, "accept": (name, [dc(before)]), "reset": (name, before)}

    raise ValueError(k)


BUILTIN_CALLS = [
    "%(x)s append 1", "%(x)s ++ [1]", "%(x)s +. 1", "1 .+ %(x)s", "reverse(%(x)s)", "sort(%(x)s)", "unique(%(x)s)",
    "%(x)s |. 5", "%(x)s -. 0", "%(x)s || {9: 9}", "%(x)s map (\\t -> t)", "%(x)s filter (\\t -> 1)", "tail(%(x)s)",
    "uncons(%(x)s)", "unsnoc(%(x)s)", "%(x)s insert [0, 1]", "set(%(x)s)", "items(%(x)s)", "keys(%(x)s)", "values(%(x)s)",
    "flatten(%(x)s)", "transpose(%(x)s)", "%(x)s .* 2", "%(x)s $ \"\"", "%(x)s take 1", "%(x)s drop 1", "first(%(x)s)",
    "%(x)s map_keys (\\t -> t)", "%(x)s map_values (\\t -> t)", "%(x)s && {0: 1}", "%(x)s -- {0: 1}", "enumerate(%(x)s)",
    "%(x)s zip %(x)s", "%(x)s ** %(x)s", "sum(%(x)s)", "%(x)s each (\\t -> t)", "%(x)s fold (\\p, q -> p)", "%(x)s join \",\"",
    "%(x)s |.. [0, 5]", "frequencies(%(x)s)", "%(x)s group 2", "%(x)s window 2", "prefixes(%(x)s)", "suffixes(%(x)s)",
    "%(x)s sort_on (\\t -> 0)", "%(x)s !? 0", "%(x)s !% 0", "vector(%(x)s)", "list(%(x)s)", "dict(%(x)s)", "str(%(x)s)", "bytes(%(x)s)",
    "stream(%(x)s)", "repr(%(x)s)", "len(%(x)s)", "shuffle(%(x)s)", "%(x)s prepend 1", "%(x)s ||+ {0: 1}", "only(%(x)s)",
    "(\\t -> (t[0] = 99; t))(%(x)s)", "(\\t -> (t append= 5; t))(%(x)s)", "(\\t -> (pop t))(%(x)s)", "(\\t -> (t = 0))(%(x)s)",
    # the value travels through a loop variable, a pattern, a thrown value, a local copy, a section: none of them may write back
    "(for (t <- %(x)s) (t = 0))", "(for (i, t <<- %(x)s) (t = i))", "(for (t <- [%(x)s]) (t[0] = 99))", "(for (t <- [%(x)s, %(x)s]) yield (t append= 5; t))",
    "(switch (%(x)s) case t -> (t[0] = 99; t))", "(try (throw %(x)s) catch t -> (t[0] = 99; t))", "(\\ -> (t := %(x)s; t[0] = 99; t append= 1; t))()",
    "(\\t -> (every t[:1] = 7; t))(%(x)s)", "(\\t -> (t .= reverse; t))(%(x)s)", "(\\t -> (swap t[0], t[-1]; t))(%(x)s)", "(\\...t -> (t[0][0] = 99; t))(%(x)s, %(x)s)",
    "(\\t, u = %(x)s -> (u[0] = 99; u))(1)", "[%(x)s, %(x)s] map (\\t -> (t[0] = 99; t))", "(_ append 1)(%(x)s)", "%(x)s then (\\t -> (remove t[0]; t))",
]

KINDS = ["decl", "alias", "alias", "setidx", "setidx", "setidx", "opassign", "opassign", "defop", "every", "everyvars", "everydeep", "opassign_selfmut", "defaultmut",
         "pop", "remove", "remove", "swap", "consume", "update", "destructure", "callmut", "callbuiltin", "failop"]
