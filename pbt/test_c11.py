"""C11 - lazy streams are coherent.

A case is a stream constructor spec (possibly nested adaptors), a number of dropped elements, and a
battery of observations all made on ONE variable holding the stream; the reference materialises the
stream with Python generators (range / itertools in the documented orders) and every observation
must equal the same observation on that list - including a final list(s), which shows that no
observation advanced the variable.
"""
import itertools
import math

from hypothesis import strategies as st

from .core import Fail, GeneratorBug
from .values import Vec, mcanon, norm, render, render_int

PID = "C11"
LEVEL = "exploration"
RULE = ("Hypothesis-generated stream specs (ranges with any step sign and around 2^63, permutations, combinations, "
        "subsequences, cartesian powers, stream(seq), lazy map/filter/zip nested <= 2, infinite iota/repeat/cycle/iterate) x "
        "dropped prefix x ~35 observations on the same variable; non-trivial = dropped prefix > 0, or negative step, or an "
        "empty stream, or a nested adaptor, or an infinite partner; distinct by constructor source + position")
ASSUMPTIONS = [
    "orders: permutations/combinations lexicographic by index (itertools), subsequences big-endian binary, ^^ odometer",
    "[] ^^ k and stream(dict) are not generated (undocumented convention / instance-specific order)",
    "materialised length <= 5000; infinite streams only through finite prefixes, non-negative indices, bounded slices and len == inf",
    "lazy_map/lazy_filter/iterate only with pure functions (BUILTINS.md: no guarantees otherwise)",
]

FUNCS = {"inc": ("(+1)", lambda x: x + 1), "dbl": ("(*2)", lambda x: x * 2), "neg": ("(\\t -> 0 - t)", lambda x: -x)}
PREDS = {"even": ("even", lambda x: x % 2 == 0), "gt2": ("(>2)", lambda x: x > 2), "never": ("(\\t -> 0)", lambda x: False)}
PRELUDE = ["ls := \\v -> if (v is stream) list(v) else v"]
MAXLEN = 5000


class Unsupported(Exception):
    pass


def spec_src(sp):
    t = sp["t"]
    if t == "range":
        s = "(%s %s %s" % (render_int(sp["a"]), "to" if sp["incl"] else "til", render_int(sp["b"]))
        if sp["c"] is not None:
            s += " by %s" % render_int(sp["c"])
        return s + ")"
    if t == "perm":
        return "permutations(%s)" % render(sp["xs"])
    if t == "comb":
        return "combinations(%s, %d)" % (render(sp["xs"]), sp["k"])
    if t == "subseq":
        return "subsequences(%s)" % render(sp["xs"])
    if t == "pow":
        return "(%s ^^ %d)" % (render(sp["xs"]), sp["k"])
    if t == "wrap":
        xs = sp["xs"]
        lit = {"list": lambda: render(xs), "vec": lambda: render(Vec(xs)), "bytes": lambda: render(bytes(xs)),
               "str": lambda: render("".join(chr(97 + (x % 26)) for x in xs))}[sp["kind"]]()
        return "stream(%s)" % lit
    if t == "map":
        return "(%s lazy_map %s)" % (spec_src(sp["s"]), FUNCS[sp["f"]][0])
    if t == "filter":
        return "(%s lazy_filter %s)" % (spec_src(sp["s"]), PREDS[sp["p"]][0])
    if t == "zip":
        if sp.get("f"):
            return "lazy_zip(%s, %s, +)" % (spec_src(sp["a"]), spec_src(sp["b"]))
        return "lazy_zip(%s, %s)" % (spec_src(sp["a"]), spec_src(sp["b"]))
    if t == "iota":
        return "iota(%s)" % render_int(sp["a"])
    if t == "repeat":
        return "repeat(%s)" % render(sp["x"])
    if t == "cycle":
        return "cycle(%s)" % render(sp["xs"])
    if t == "iterate":
        return "(%s iterate %s)" % (render_int(sp["a"]), FUNCS[sp["f"]][0])
    if t == "iterate_brk":
        # the step function ends the stream with `break` once the element exceeds the limit (that element is still yielded)
        return "iterate(%s, \\t -> if (t > %d) break else %s(t))" % (render_int(sp["a"]), sp["limit"], FUNCS[sp["f"]][0])
    if t == "iterate_err":
        # the step function is partial: it raises on the last defined element
        return "iterate(0, \\t -> %s[t])" % render(list(range(1, sp["m"] + 1)))
    raise ValueError(t)


def spec_gen(sp):
    """Python generator of the stream's elements (model values); may be infinite"""
    t = sp["t"]
    if t == "range":
        a, b, c = sp["a"], sp["b"], sp["c"] if sp["c"] is not None else 1
        if sp["incl"]:
            b = b + (1 if c > 0 else -1)
        if c == 0:
            raise Unsupported("zero step")
        return iter(range(a, b, c))
    if t == "perm":
        return (list(p) for p in itertools.permutations(sp["xs"]))
    if t == "comb":
        return (list(p) for p in itertools.combinations(sp["xs"], sp["k"]))
    if t == "subseq":
        xs = sp["xs"]
        n = len(xs)
        return ([x for j, x in enumerate(xs) if (m >> (n - 1 - j)) & 1] for m in range(2 ** n))
    if t == "pow":
        return (list(p) for p in itertools.product(sp["xs"], repeat=sp["k"]))
    if t == "wrap":
        xs = sp["xs"]
        if sp["kind"] == "str":
            return iter([chr(97 + (x % 26)) for x in xs])
        return iter(list(xs))
    if t == "map":
        f = FUNCS[sp["f"]][1]
        return (f(x) for x in spec_gen(sp["s"]))
    if t == "filter":
        p = PREDS[sp["p"]][1]
        return (x for x in spec_gen(sp["s"]) if p(x))
    if t == "zip":
        if sp.get("f"):
            return (x + y for x, y in zip(spec_gen(sp["a"]), spec_gen(sp["b"])))
        return ([x, y] for x, y in zip(spec_gen(sp["a"]), spec_gen(sp["b"])))
    if t == "iota":
        return itertools.count(sp["a"])
    if t == "repeat":
        return itertools.repeat(sp["x"])
    if t == "cycle":
        return itertools.cycle(sp["xs"])
    if t == "iterate":
        f = FUNCS[sp["f"]][1]

        def g(a=sp["a"]):
            while True:
                yield a
                a = f(a)
        return g()
    raise ValueError(t)


def partial_elems(sp):
    if sp["t"] == "iterate_brk":
        f = FUNCS[sp["f"]][1]
        out, x = [], sp["a"]
        while True:
            out.append(x)
            if x > sp["limit"]:
                return out
            x = f(x)
    return list(range(sp["m"] + 1))


def partial_obs(sp, p):
    """a stream built by `iterate` whose step function stops (break) or fails on the last defined element: every prefix,
    index and slice up to and including that element is defined; `len` is not asserted (iterate reports infinity)"""
    L = partial_elems(sp)[p:]
    n = len(L)
    brk = sp["t"] == "iterate_brk"
    obs = []
    for i in range(n):
        obs.append(("index", "s[%d]" % i, mcanon(L[i])))
    obs.append(("index_past", "s[%d]" % n, E))
    for a, b in ((0, n), (1, n), (0, max(n - 1, 0)), (n - 1, n), (2, 3)):
        if brk or (0 <= a <= n and b <= n):     # past the failing element a slice raises like the element itself
            obs.append(("slice", "ls(s[%d:%d])" % (max(a, 0), b), mcanon(L[max(a, 0):b])))
    for k in (0, 1, n - 1, n):
        if k >= 0:
            obs.append(("take", "ls(s take %d)" % k, mcanon(L[:k])))
    obs.append(("take_past", "ls(s take %d)" % (n + 1), mcanon(L) if brk else E))
    if n:
        obs.append(("drop_first", "first(s drop %d)" % (n - 1), mcanon(L[-1])))
        obs.append(("first", "first(s)", mcanon(L[0])))
        obs.append(("for_break", "for (x <- s) (if (x == %s) break 77)" % render(L[-1]), mcanon(77)))
    if brk:
        obs.append(("list", "list(s)", mcanon(L)))
        obs.append(("for", "for (x <- s) yield x", mcanon(L)))
        obs.append(("reverse", "ls(reverse(s))", mcanon(L[::-1])))
        obs.append(("last", "last(s)", mcanon(L[-1]) if n else E))
        if n:
            obs.append(("in", "%s in s" % render(L[-1]), mcanon(1)))
    obs.append(("index_again", "s[0]", mcanon(L[0]) if n else E))
    return obs


def is_infinite(sp):
    t = sp["t"]
    if t in ("iota", "repeat", "cycle", "iterate"):
        return True
    if t == "map":
        return is_infinite(sp["s"])
    if t == "filter":
        return is_infinite(sp["s"])
    if t == "zip":
        return is_infinite(sp["a"]) and is_infinite(sp["b"])
    return False


def has_infinite_part(sp):
    t = sp["t"]
    if t in ("iota", "repeat", "cycle", "iterate"):
        return True
    return any(has_infinite_part(sp[k]) for k in ("s", "a", "b") if k in sp and isinstance(sp[k], dict))


def depth(sp):
    return 1 + max([depth(sp[k]) for k in ("s", "a", "b") if k in sp and isinstance(sp[k], dict)], default=0)


def T(e):
    return "try (%s) catch e -> \"E\"" % e


E = {"s": "E"}


def finite_obs(L, ints):
    """[(label, expr over s, expected canon or E)]"""
    n = len(L)
    obs = [("len", "len(s)", mcanon(n)), ("list", "list(s)", mcanon(L))]
    for i in range(-n - 1, n + 1):
        obs.append(("index", "s[%s]" % render_int(i), mcanon(L[i]) if -n <= i < n else E))
    bounds = [None, 0, 1, 2, n - 1, n, n + 2, -1, -2, -n, -n - 1]
    for a, b in itertools.islice(itertools.product(bounds, bounds), 0, None, 7):
        obs.append(("slice", "ls(s[%s:%s])" % ("" if a is None else render_int(a), "" if b is None else render_int(b)), mcanon(L[slice(a, b)])))
    obs.append(("reverse", "ls(reverse(s))", mcanon(L[::-1])))
    obs.append(("last", "last(s)", mcanon(L[-1]) if n else E))
    obs.append(("first", "first(s)", mcanon(L[0]) if n else E))
    obs.append(("truthy", "if (s) 1 else 0", mcanon(1 if n else 0)))
    if n:
        obs.append(("in", "%s in s" % render(L[n // 2]), mcanon(1)))
    obs.append(("in", "(0-999) in s", mcanon(0)))
    if ints and n:
        # membership is by value: a float / rational / complex equal to an element is in the stream, a near miss is not
        x = L[(2 * n) // 3]
        if abs(x) < 2 ** 50:
            obs.append(("in_float", "float(%s) in s" % render_int(x), mcanon(1)))
            obs.append(("in_rational", "((2 * %s) / 2) in s" % render_int(x), mcanon(1)))
            obs.append(("in_complex", "(%s + 0i) in s" % render_int(x), mcanon(1)))
            obs.append(("in_near", "(%s + 0.5) in s" % render_int(x), mcanon(0)))
    obs.append(("unpack_splat", "(\\t -> (a, ...b := t; [a, b]))(s)", mcanon([L[0], L[1:]]) if n else E))
    obs.append(("unpack_exact2", "(\\t -> (a, b := t; [a, b]))(s)", mcanon(L) if n == 2 else E))
    obs.append(("for", "for (x <- s) yield x", mcanon(L)))
    obs.append(("for_index", "for (i, x <<- s) yield [i, x]", mcanon([[i, x] for i, x in enumerate(L)])))
    obs.append(("map", "s map (\\t -> [t])", mcanon([[x] for x in L])))
    obs.append(("zip", "ls(s zip s)", mcanon([[x, x] for x in L])))
    obs.append(("count", "s count (\\t -> 1)", mcanon(n)))
    obs.append(("take", "ls(s take 2)", mcanon(L[:2])))
    obs.append(("drop", "ls(s drop 1)", mcanon(L[1:])))
    obs.append(("only", "only(s)", mcanon(L[0]) if n == 1 else E))
    if ints:
        obs.append(("sum", "sum(s)", mcanon(sum(L))))
        if n:
            obs.append(("max", "max(s)", mcanon(max(L))))
    # order of observations: the variable has been measured above; a stream obtained from it by dropping everything / all but
    # one element must report its own length and truthiness
    obs.append(("drop_all_after_len", "(\\t -> [len(t), (if (t) 1 else 0), list(t)])(s drop len(s))", mcanon([0, 0, []])))
    obs.append(("slice_all_after_len", "(\\t -> [len(t), (if (t) 1 else 0), ls(t)])(s[%d:])" % n, mcanon([0, 0, []])))
    if n:
        obs.append(("drop_all_but_one", "(\\t -> [len(t), (if (t) 1 else 0), list(t)])(s drop %d)" % (n - 1), mcanon([1, 1, [L[-1]]])))
    obs.append(("len_vs_list", "len(s) == len(list(s))", mcanon(1)))
    obs.append(("list_again", "list(s)", mcanon(L)))
    return obs


def infinite_obs(gen_factory, base):
    """base: the stream is one of the four infinite constructors (possibly with a dropped prefix), for
    which the statement promises len == inf; adaptors over infinite streams only get prefix checks"""
    P = list(itertools.islice(gen_factory(), 0, 40))
    obs = [("len_inf", "len(s)", {"f": "7ff0000000000000"}), ("truthy", "if (s) 1 else 0", mcanon(1))] if base else []
    for i in (0, 1, 2, 7, 39):
        obs.append(("index", "s[%d]" % i, mcanon(P[i])))
    for a, b in ((0, 5), (3, 9), (None, 4), (10, 10), (5, 2), (0, 40)):
        obs.append(("slice", "ls(s[%s:%s])" % ("" if a is None else a, b), mcanon(P[slice(a, b)])))
    obs.append(("take", "ls(s take 6)", mcanon(P[:6])))
    obs.append(("drop_take", "ls((s drop 3) take 4)", mcanon(P[3:7])))
    obs.append(("first", "first(s)", mcanon(P[0])))
    obs.append(("for_break", "for (x <- s) (if (x == %s) break 77)" % render(P[5]), mcanon(77)))
    obs.append(("open_slice_take", "ls(s[4:] take 3)", mcanon(P[4:7])))
    obs.append(("take_again", "ls(s take 6)", mcanon(P[:6])))
    return obs


def elems_int(sp):
    t = sp["t"]
    if t in ("range", "iota", "iterate"):
        return True
    if t == "wrap":
        return sp["kind"] in ("list", "vec", "bytes")
    if t in ("map", "filter"):
        return elems_int(sp["s"])
    if t == "zip":
        return bool(sp.get("f")) and elems_int(sp["a"]) and elems_int(sp["b"])
    if t == "repeat":
        return isinstance(sp["x"], int)
    if t == "cycle":
        return True
    return False


def check_case(nl, case, ctx=None):
    sp, p = case["spec"], case["p"]
    try:
        src = spec_src(sp)
        inf = is_infinite(sp)
        if sp["t"] in ("iterate_brk", "iterate_err"):
            inf = False
            p = min(p, len(partial_elems(sp)) - 1)    # dropping past the failing element is itself the failure
            L = partial_elems(sp)[p:]
            obs = partial_obs(sp, p)
        elif inf:
            def gf():
                return itertools.islice(spec_gen(sp), p, None)
            obs = infinite_obs(gf, sp["t"] in ("iota", "repeat", "cycle", "iterate"))
        else:
            full = list(itertools.islice(spec_gen(sp), 0, MAXLEN + 1))
            if len(full) > MAXLEN:
                if ctx is not None:
                    ctx.exclude("too_long")
                return None
            L = full[p:]
            obs = finite_obs(L, elems_int(sp))
    except Unsupported as e:
        if ctx is not None:
            ctx.exclude(str(e))
        return None
    ctor = src if p == 0 else "(%s drop %d)" % (src, p)
    body = "[%s]" % ", ".join(T(o[1]) for o in obs)
    expr = "(\\s -> %s)(%s)" % (body, ctor)
    r = nl.run(PRELUDE + [expr], fuel=3_000_000, timeout=120, stop_on_panic=False)[-1]
    if ctx is not None:
        nt = p > 0 or len(obs) and (not inf and len(obs) > 0 and (sp["t"] == "range" and (sp["c"] or 1) < 0)) or depth(sp) > 1 or has_infinite_part(sp) \
            or (not inf and len(L) == 0)
        ctx.count(ctor, bool(nt), "%s:%s" % (sp["t"], "inf" if inf else "fin"))
        ctx.extra("observations", len(obs))
        if nt:
            ctx.sample({"stream": ctor, "observations": len(obs)})
    sig = "C11:%s" % sp["t"]
    if r["status"] == "parse_error":
        raise GeneratorBug("does not parse: %s" % expr)
    if r["status"] != "ok":
        return Fail(sig + ":" + r["status"], "%s with s = %s -> %s" % ("all observations", ctor, {k: r.get(k) for k in ("status", "msg", "panic")}))
    out = [norm(x) for x in r["value"]["l"]]
    for (label, e, want), got in zip(obs, out):
        if got != want:
            return Fail("%s:%s" % (sig, label), "s := %s; %s gives %s, but list(s) semantics give %s" % (ctor, e, got, want))
    return None


CHECKS = {"case": check_case}

# ---- generators ------------------------------------------------------------------------------------

small = st.integers(-6, 6)


def s_range():
    near = st.builds(lambda b, d: b + d, st.sampled_from([2 ** 63, -(2 ** 63), 2 ** 64, 2 ** 31]), st.integers(-4, 4))
    step = st.one_of(st.none(), st.integers(1, 3), st.integers(-3, -1), st.sampled_from([2 ** 63, -(2 ** 63), 2 ** 64, 7, -7]))
    smallr = st.builds(lambda a, b, c, i: {"t": "range", "a": a, "b": b, "c": c, "incl": i}, small, small, step, st.booleans())
    bigr = st.builds(lambda a, d, c, i: {"t": "range", "a": a, "b": a + d, "c": c, "incl": i}, near, st.integers(-8, 8), step, st.booleans())
    return st.one_of(smallr, smallr, bigr)


def s_xs(maxn=5):
    return st.lists(st.integers(0, 3), min_size=0, max_size=maxn)


def s_base():
    perm = s_xs(4).map(lambda xs: {"t": "perm", "xs": xs})
    comb = st.builds(lambda xs, k: {"t": "comb", "xs": xs, "k": min(k, len(xs) + 1)}, s_xs(5), st.integers(0, 6))
    subs = s_xs(5).map(lambda xs: {"t": "subseq", "xs": xs})
    powr = st.builds(lambda xs, k: {"t": "pow", "xs": xs, "k": k}, st.lists(st.integers(0, 3), min_size=1, max_size=4), st.integers(0, 3))
    wrap = st.builds(lambda xs, k: {"t": "wrap", "xs": xs, "kind": k}, s_xs(6), st.sampled_from(["list", "vec", "bytes", "str"]))
    return st.one_of(s_range(), s_range(), perm, comb, subs, powr, wrap)


def s_intstream():
    wrap = st.builds(lambda xs, k: {"t": "wrap", "xs": xs, "kind": k}, s_xs(6), st.sampled_from(["list", "vec", "bytes"]))
    return st.one_of(s_range(), wrap)


def s_inf():
    return st.one_of(small.map(lambda a: {"t": "iota", "a": a}),
                     st.sampled_from([2 ** 63 - 2, -(2 ** 63) - 1]).map(lambda a: {"t": "iota", "a": a}),
                     st.one_of(small, st.just([1]), st.just("x")).map(lambda x: {"t": "repeat", "x": x}),
                     st.lists(st.integers(0, 9), min_size=1, max_size=4).map(lambda xs: {"t": "cycle", "xs": xs}),
                     st.builds(lambda a, f: {"t": "iterate", "a": a, "f": f}, st.integers(1, 3), st.sampled_from(["inc", "dbl"])))


def s_spec():
    ints = st.one_of(s_intstream(), s_intstream(), s_inf().filter(elems_int))
    mapped = st.builds(lambda s, f: {"t": "map", "s": s, "f": f}, ints, st.sampled_from(list(FUNCS)))
    filt = st.builds(lambda s, p: {"t": "filter", "s": s, "p": p}, s_intstream(), st.sampled_from(list(PREDS)))
    zipped = st.builds(lambda a, b, f: {"t": "zip", "a": a, "b": b, "f": f}, st.one_of(ints, mapped), st.one_of(ints, filt), st.sampled_from([None, "+"]))
    nested = st.builds(lambda s, f: {"t": "map", "s": s, "f": f}, st.one_of(filt, zipped.filter(lambda z: z["f"])), st.sampled_from(list(FUNCS)))
    part = st.one_of(st.builds(lambda a, f, lim: {"t": "iterate_brk", "a": a, "f": f, "limit": lim}, st.integers(1, 3), st.sampled_from(["inc", "dbl"]), st.integers(0, 40)),
                     st.integers(1, 6).map(lambda m: {"t": "iterate_err", "m": m}))
    return st.one_of(s_base(), s_base(), mapped, filt, zipped, nested, s_inf(), part)


def worker(ctx):
    cases = st.builds(lambda sp, p: {"spec": sp, "p": p}, s_spec(), st.one_of(st.just(0), st.integers(0, 7)))
    ctx.hyp(cases, lambda c: ctx.check("case", c), ctx.share(ctx.scale(10000, 200000)), label="c11")
