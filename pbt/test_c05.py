"""C05 - control flow, scoping and closures against a reference interpreter of the documented rules.

Programs are generated scope-aware (langgen.py), printed to concrete syntax, run by the real
interpreter and by the reference interpreter (lang.py): same final value, same printed output, same
raised / not-raised outcome (error messages are never compared; thrown user values are).
"""
from hypothesis import strategies as st

from .core import Fail, GeneratorBug
from .lang import Builtin, Closure, Interp, Opaque, OpaqueReached, StepLimit, pr
from .langgen import programs
from .values import NDict
from .values import Opaque as VOpaque
from .values import mcanon, norm

PID = "C05"
LEVEL = "exploration"
RULE = ("Hypothesis-generated programs (depth <= 4, scope-aware); non-trivial = the program contains and the reference executed "
        "at least one of: a closure escaping its defining scope, closures created per loop iteration and called afterwards, "
        "inner shadowing followed by an outer read, counted break/continue through nested loops, return through a loop, "
        "throw caught by try, a multi-clause for with declaration or guard, yield k: v or yield .. into, eval; distinct by source")
ASSUMPTIONS = [
    "the reference interpreter encodes only the rules of DESIGN.md Appendix A; anything else is not generated (Appendix B)",
    "integers are small, all arithmetic is on ints; strings appear only as labels and thrown values",
    "interpreter-raised error values are opaque: a comparison that would need their text is skipped and counted",
    "parameter defaults are evaluated at call time in the defining scope (observed, undocumented)",
    "a continue (after count decrement) that surfaces while a for clause's iterated expression, guard or declaration is being "
    "evaluated is not absorbed by that for at all, whichever clause it is in: it continues the loop enclosing the whole for "
    "(observed; the documentation does not cover loop exits placed in clause expressions)",
    "model step budget 3000, implementation fuel 10^6",
]


def conv(v):
    if isinstance(v, (Closure, Builtin)):
        return VOpaque("fn")
    if isinstance(v, Opaque):
        raise OpaqueReached()
    if isinstance(v, list):
        return [conv(x) for x in v]
    if isinstance(v, NDict):
        d = NDict()
        d.items = [(k, conv(x)) for k, x in v.items]
        return d
    return v


def features(e, acc, ctx=None):
    """static AST features for the non-triviality rule"""
    ctx = ctx or {"loops": 0, "lam": 0}
    t = e[0]
    if t == "lambda":
        if ctx["loops"] > 0:
            acc.add("closure_per_iteration")
        if ctx["lam"] > 0:
            acc.add("closure_escaping")
        sub = {"loops": 0, "lam": ctx["lam"] + 1}
        for p in e[1]:
            if p[1] is not None:
                acc.add("default_param")
                features(p[1], acc, ctx)
            if p[2]:
                acc.add("splat_param")
        features(e[2], acc, sub)
        return
    if t == "for":
        if len(e[1]) > 1:
            acc.add("multi_clause_for")
        if any(c[0] in ("decl", "guard") for c in e[1]):
            acc.add("for_decl_or_guard")
        if e[2][0] == "yieldkv":
            acc.add("yield_kv")
        if e[2][0] == "yield" and e[2][2]:
            acc.add("yield_into")
        sub = {"loops": ctx["loops"] + 1, "lam": ctx["lam"]}
        for c in e[1]:
            for x in c[1:]:
                if isinstance(x, list):
                    features(x, acc, ctx)
        for x in e[2][1:]:
            if isinstance(x, list):
                features(x, acc, sub)
        return
    if t == "while":
        sub = {"loops": ctx["loops"] + 1, "lam": ctx["lam"]}
        features(e[1], acc, sub)
        features(e[2], acc, sub)
        return
    if t == "break" and (e[1] > 0 or e[2] is not None):
        acc.add("counted_or_valued_break")
    if t == "continue" and e[1] > 0:
        acc.add("break_continue")
    if t == "return" and ctx["loops"] > 0:
        acc.add("return_through_loop")
    if t in ("throw", "try", "eval", "switch"):
        acc.add(t)
    for x in e[1:]:
        if isinstance(x, list) and x and isinstance(x[0], str):
            features(x, acc, ctx)
        elif isinstance(x, list):
            for y in x:
                if isinstance(y, list) and y and isinstance(y[0], str):
                    features(y, acc, ctx)
                elif isinstance(y, list):
                    for z in y:
                        if isinstance(z, list) and z and isinstance(z[0], str):
                            features(z, acc, ctx)


INTERESTING = {"closure_per_iteration", "closure_escaping", "counted_or_valued_break", "break_continue", "return_through_loop", "throw",
               "for_decl_or_guard", "yield_kv", "yield_into", "eval", "multi_clause_for"}


def check_program(nl, case, ctx=None):
    prog = case["prog"]
    src = pr(prog)
    ip = Interp()
    try:
        kind, val = ip.run(prog)
        want_val = mcanon(conv(val)) if kind == "ok" else None
        thrown = None
        if kind == "err" and not isinstance(val, Opaque):
            thrown = mcanon(conv(val))
        want_out = "".join(ip.out)
    except StepLimit:
        if ctx is not None:
            ctx.exclude("model step limit")
        return None
    except OpaqueReached:
        if ctx is not None:
            ctx.exclude("opaque error value or unmodelled call would be observed")
        return None
    except RecursionError:
        if ctx is not None:
            ctx.exclude("model recursion")
        return None
    if kind == "ctrl":
        if ctx is not None:
            ctx.exclude("stray break/continue/return at top level")
        return None
    r = nl.run([src], fuel=1_000_000, timeout=60)[0]
    feats = set()
    features(prog, feats)
    if ctx is not None:
        nt = bool(feats & INTERESTING)
        ctx.count(src, nt, "outcome:%s" % kind)
        for f in feats:
            ctx.cls("feature:" + f)
        if nt:
            ctx.sample({"program": src, "features": sorted(feats & INTERESTING)})
    if r["status"] == "parse_error":
        raise GeneratorBug("generated program does not parse: %s :: %s" % (src, r.get("msg")))
    sig = "C05:%s" % ("+".join(sorted(feats & INTERESTING)) or "plain")
    if r["status"] in ("panic", "fuel", "ctrl"):
        return Fail(sig + ":" + r["status"], "%s -> %s (reference: %s)" % (src, {k: r.get(k) for k in ("status", "panic", "what")}, kind))
    if kind == "ok":
        if r["status"] != "ok":
            return Fail(sig + ":raised", "%s raised %r but the reference interpreter yields %s (output %r)" % (src, r.get("msg") or r.get("thrown"), want_val, want_out))
        if norm(r["value"]) != want_val:
            return Fail(sig + ":value", "%s = %s, reference interpreter: %s" % (src, norm(r["value"]), want_val))
    else:
        if r["status"] != "err":
            return Fail(sig + ":should_raise", "%s returned %s but the reference interpreter raises" % (src, r.get("value")))
        if thrown is not None and norm(r["thrown"]) != thrown:
            return Fail(sig + ":thrown", "%s threw %s, reference: %s" % (src, norm(r["thrown"]), thrown))
    if r["output"] != want_out:
        return Fail(sig + ":output", "%s printed %r, reference interpreter printed %r" % (src, r["output"], want_out))
    return None


CHECKS = {"program": check_program}


def worker(ctx):
    progs = programs(max_depth=ctx.scale(4, 5)).map(lambda p: {"prog": p})
    ctx.hyp(progs, lambda c: ctx.check("program", c), ctx.share(ctx.scale(10000, 150000)), label="c05")


def postcheck(stats, tier):
    need = ["feature:" + f for f in INTERESTING]
    missing = [c for c in need if stats.classes.get(c, 0) < 5]
    return "program ingredients (almost) never generated: %s" % missing if missing else None
