"""C14 - every failure is a catchable error, never a crash.

sweep   every pure builtin x argument tuples (k = 0..2, k = 3 on a reduced pool) from a pool of values of
        every kind plus classic faults; each call runs inside try/catch in a session whose other variables
        are checked afterwards. Allowed outcomes: a value, or an error the catch received. Forbidden: a
        panic (caught by the harness with message and location), a process abort, fuel exhaustion.
stmts   Hypothesis: statement templates (index/slice assignment, op-assign, every, pop, remove, swap,
        destructuring, conversions, arithmetic, indexing) instantiated with operands of random kinds.
"""
import itertools
import re

from hypothesis import strategies as st

from .core import Fail, GeneratorBug, isolate_abort, isolate_hang
from .pool import DENY, POOL, QUICK, SIZELIKE, by_name, pool_decls
from .runner import Inconclusive
from .values import norm

PID = "C14"
LEVEL = "fault_enumeration"
RULE = ("exhaustive sweep builtin x pool^k (k <= 2 full pool in thorough / reduced pool in quick, k = 3 reduced) plus "
        "Hypothesis-generated faulty statements; every case runs inside try/catch; non-trivial = the case raised an error "
        "that the catch received (a fault was provoked and contained); distinct by (function or template, kinds of operands)")
ASSUMPTIONS = [
    "I/O, process, clock, sleep, randomness, eval/vars/import and memoize are outside the pure part and are not called",
    "resource classes are excluded by construction and counted: integer arguments >= 2^20 to size-like builtins "
    "(.* ** ^^ $* ^ << window combinations is_prime factorize ...), infinite streams as arguments",
    "a panic is recognised through catch_unwind in the harness; an abort kills the worker and is isolated by re-running",
]
EXHAUSTIVE = True

BYNAME = by_name()
SESSION_PRELUDE = pool_decls() + ["z_untouched := [1, [2, 3], {\"k\": 4}]"]
PROBE = "[z_untouched, 1 + 1]"
PROBE_WANT = {"l": [{"l": [{"i": "1"}, {"l": [{"i": "2"}, {"i": "3"}]}, {"d": [[{"s": "k"}, {"i": "4"}]]}]}, {"i": "2"}]}


def msg_class(m):
    m = re.sub(r"\d+", "N", m or "")
    return m[:80]


def loc_file(loc):
    # keep the file name, drop registry hashes and line numbers
    m = re.search(r"([A-Za-z0-9_\-\.]+/src/[^:]+|src/[^:]+)", loc or "")
    return (m.group(1) if m else (loc or "?")).replace("/root/.cargo/registry/src/", "")


def fsrc(f):
    return "(%s)" % f


def sweep_exprs(f, k, names):
    sizelike = f in SIZELIKE
    out = []
    for tup in itertools.product(names, repeat=k):
        if sizelike and any("big" in BYNAME[n][2] for n in tup):
            out.append((tup, None))
            continue
        out.append((tup, "try (%s(%s)) catch e__ -> \"caught\"" % (fsrc(f), ", ".join("p_" + n for n in tup))))
    return out


def run_guarded(nl, sid, srcs, label, kind_of):
    """run a batch; on abort isolate the culprit -> Fail"""
    try:
        return nl.run(srcs, sid=sid, fuel=200_000, stop_on_panic=False, timeout=60), None
    except Inconclusive as e:
        if e.kind == "hang":
            j = isolate_hang(nl, SESSION_PRELUDE, srcs, fuel=200_000)
            if j is None:
                raise
            if any(("p_" + n) in srcs[j] for n, (_, _, t) in BYNAME.items() if "big" in t):
                # huge integer / infinity argument: a resource class, not a verdict
                return "resource", srcs[j]
            return None, Fail("C14:hang:%s" % label, "%s does not return within 20 s on small finite arguments (and consumes no fuel)" % srcs[j], {"src": srcs[j]})
        if e.kind not in ("abort", "crash"):
            raise
        j = isolate_abort(nl, SESSION_PRELUDE, srcs, fuel=200_000)
        if j is None:
            raise
        return None, Fail("C14:abort:%s" % label, "%s kills the interpreter process (%s)" % (srcs[j], e.detail), {"src": srcs[j]})


def check_sweep(nl, case, ctx=None):
    f, k = case["f"], case["k"]
    names = case["names"]
    items = sweep_exprs(f, k, names)
    todo = [(tup, e) for tup, e in items if e is not None]
    if ctx is not None:
        ctx.exclude("size-like builtin with huge integer", len(items) - len(todo))
    fails = []
    seen_sig = set()
    sid = nl.open()
    try:
        pre = nl.run(SESSION_PRELUDE, sid=sid)
        if any(r["status"] != "ok" for r in pre):
            raise GeneratorBug("prelude failed: %s" % [r for r in pre if r["status"] != "ok"][:1])
        B = 500
        for off in range(0, len(todo), B):
            chunk = todo[off:off + B]
            results, fl = run_guarded(nl, sid, [e for _, e in chunk], f, None)
            while results == "resource":
                # drop the resource-class expression and retry the rest of the chunk in a new session
                if ctx is not None:
                    ctx.exclude("hang with huge argument (resource): %s" % f)
                chunk = [(t_, e_) for t_, e_ in chunk if e_ != fl]
                sid = nl.open()
                nl.run(SESSION_PRELUDE, sid=sid)
                results, fl = run_guarded(nl, sid, [e for _, e in chunk], f, None)
            if fl is not None:
                return fails + [fl]
            poisoned = False
            for (tup, e), r in zip(chunk, results):
                kinds = ",".join(BYNAME[n][1] for n in tup)
                st_ = r["status"]
                if st_ == "parse_error":
                    if ctx is not None:
                        ctx.exclude("call form not parseable")
                    continue
                caught = st_ == "ok" and r.get("value") == {"s": "caught"}
                if ctx is not None:
                    ctx.count("%s(%s)" % (f, ",".join(tup)), caught, "k%d:%s" % (k, "caught" if caught else st_))
                    if caught:
                        ctx.sample({"call": e})
                if st_ == "panic":
                    poisoned = True
                    p = r.get("panic", {})
                    sig = "C14:panic:%s:%s:%s" % (f, loc_file(p.get("loc")), msg_class(p.get("msg")))
                    if sig not in seen_sig:
                        seen_sig.add(sig)
                        fails.append(Fail(sig, "%s panicked: %s at %s (argument kinds: %s)" % (e, p.get("msg"), p.get("loc"), kinds), {"src": e}))
                elif st_ == "fuel":
                    sig = "C14:nonterminating:%s:%s" % (f, kinds)
                    if sig not in seen_sig:
                        seen_sig.add(sig)
                        fails.append(Fail(sig, "%s did not terminate within 200000 steps on small finite arguments" % e, {"src": e}))
            if poisoned:
                nl.run(SESSION_PRELUDE, sid=sid)
                continue
            # the session must still be usable and untouched variables unchanged
            pr = nl.run([PROBE], sid=sid)[0]
            if pr["status"] != "ok" or norm(pr["value"]) != PROBE_WANT:
                fails.append(Fail("C14:state:%s" % f, "after calls of %s the session probe gives %s" % (f, pr)))
                break
    finally:
        try:
            nl.close_session(sid)
        except Inconclusive:
            pass
    return fails


# ---- faulty statements ---------------------------------------------------------------------------------

TEMPLATES = [
    "x[%(A)s] = %(B)s", "x[%(A)s][%(B)s] = %(C)s", "x[%(A)s] += %(B)s", "x[%(A)s] append= %(B)s", "x[%(A)s:%(B)s] = %(C)s",
    "every x[%(A)s:%(B)s] = %(C)s", "every x[%(A)s:%(B)s] += %(C)s", "every x[%(A)s] = %(B)s", "pop x[%(A)s]", "pop x", "remove x[%(A)s]",
    "remove x[%(A)s:%(B)s]", "swap x[%(A)s], y[%(B)s]", "swap x, y[%(A)s]", "consume x[%(A)s]", "x{%(A)s = %(B)s}",
    "a, b = %(A)s", "a, ...b = %(A)s", "a, ...b, c = %(A)s", "...a, b = %(A)s", "a, (b, c) = %(A)s", "[a, b] = %(A)s",
    "x[%(A)s]", "x[%(A)s:%(B)s]", "x[%(A)s:%(B)s:%(C)s]", "x[%(A)s][%(B)s]", "%(A)s[%(B)s]", "%(A)s[%(B)s:%(C)s]",
    "%(A)s %(OP)s %(B)s", "%(A)s %(OP)s %(B)s %(OP2)s %(C)s", "-(%(A)s)", "~(%(A)s)", "int(%(A)s)", "float(%(A)s)", "rational(%(A)s)",
    "str(%(A)s)", "list(%(A)s)", "dict(%(A)s)", "vector(%(A)s)", "bytes(%(A)s)", "number(%(A)s)", "complex(%(A)s)", "stream(%(A)s)",
    "%(A)s to %(B)s", "%(A)s is %(B)s", "x: %(A)s = %(B)s", "(\\p: %(A)s -> p)(%(B)s)", "(\\p, q = %(A)s -> [p, q])(%(B)s)",
    "switch (%(A)s) case %(B)s -> 1 case _ -> 2", "switch (%(A)s) case p, q -> 1", "for (p <- %(A)s) p", "for (p, q <<- %(A)s) yield p",
    "for (p <- %(A)s) yield p: %(B)s", "%(A)s(%(B)s)", "%(A)s(%(B)s, %(C)s)", "%(A)s(...%(B)s)", "F\"{%(A)s #x} {%(B)s #5d}\"",
    "%(A)s $ %(B)s", "if (%(A)s) 1 else 2", "while (0) %(A)s", "%(A)s and %(B)s or %(C)s", "%(A)s coalesce %(B)s",
    "x[%(A)s] .= %(B)s", "x .= %(A)s", "x %(OP)s= %(A)s", "struct Pt (px, py = %(A)s); Pt(%(B)s)[py]", "(\\...p -> p)(...%(A)s, %(B)s)",
    "chr(%(A)s)", "ord(%(A)s)", "utf8_decode(%(A)s)", "hex_decode(%(A)s)", "base64_decode(%(A)s)", "json_decode(%(A)s)", "decompress(%(A)s)",
    "int_radix(%(A)s, %(B)s)", "str_radix(%(A)s, %(B)s)", "%(A)s split %(B)s", "%(A)s join %(B)s", "%(A)s replace %(B)s with %(C)s",
    "%(A)s search %(B)s", "%(A)s =~ %(B)s", "upper(%(A)s)", "%(A)s !! %(B)s", "%(A)s !% %(B)s", "%(A)s in %(B)s", "sort(%(A)s)", "%(A)s sort %(B)s",
    "max(%(A)s)", "%(A)s fold %(B)s", "%(A)s fold %(B)s from %(C)s", "%(A)s map %(B)s", "%(A)s zip %(B)s", "transpose(%(A)s)",
    "(\\s -> (s[%(A)s] = %(B)s; s))(\"abc\")", "(\\s -> (s[%(A)s] = %(B)s; s))(%(C)s)", "(\\s -> (s[%(A)s] %(OP)s= %(B)s; s))(%(C)s)",
    "(\\s -> (remove s[%(A)s]; s))(%(B)s)", "(\\s -> (pop s; s))(%(A)s)", "(\\s -> (every s[%(A)s:] = %(B)s; s))(%(C)s)",
    "{%(A)s: %(B)s}", "{%(A)s, %(B)s}", "{:%(A)s, %(B)s: %(C)s}", "set(%(A)s)", "unique(%(A)s)", "frequencies(%(A)s)", "count_distinct(%(A)s)",
    "y[%(A)s]", "y[%(A)s] = %(B)s", "y[%(A)s] += %(B)s", "%(A)s |. %(B)s", "%(A)s -. %(B)s", "%(A)s || %(B)s", "%(A)s group_all %(B)s",
    "memoize(\\p -> 1)(%(A)s)", "%(A)s !? %(B)s", "dict([[%(A)s, %(B)s]])", "remove y[%(A)s]",
    "repeat(7)[%(A)s:%(B)s]", "repeat(7)[%(A)s]", "(1 to 5)[%(A)s:%(B)s]",
    # operator patterns with arbitrary constants and arbitrary matched values (a pattern that cannot be inverted must refuse)
    "%(A)s * p = %(B)s", "p * %(A)s = %(B)s", "%(A)s + p = %(B)s", "p + %(A)s = %(B)s", "p - %(A)s = %(B)s", "p / q = %(A)s", "-p = %(A)s",
    "p .+ q = %(A)s", "q +. p = %(A)s", "%(A)s < p < %(B)s = %(C)s", "switch (%(A)s) case %(B)s * p -> p case _ -> 0",
    "switch (%(A)s) case %(B)s + p -> p case p .+ q -> q case _ -> 0", "(\\(%(A)s * p) -> p)(%(B)s)", "for (%(A)s * p <- %(B)s) p",
    "a, (b: %(A)s) = %(B)s", "%(A)s or p = %(B)s", "literally %(A)s = %(B)s",
    # closed-form lengths of large enumerations
    "len(permutations(1 to 25))", "len(permutations(1 to 20))", "len(subsequences(1 to 70))", "len(subsequences(1 to 62))", "len((1 to 9) ^^ 30)",
    "len(permutations(\"abcdefghijklmnopqrstuvwxyz\"))",
] + [
    # infinite streams other than repeat: only bounds that do not ask for the end of the stream (a negative bound or a huge
    # count is a non-terminating / resource request, outside the property)
    "list(%s[%s:%s])" % (st_, a_, b_) for st_ in ("iota(0)", "cycle([1, 2])", "(iota(0) lazy_map (*2))", "(repeat(1) zip iota(0))", "(2 iterate (*2))")
    for a_ in ("", "0", "1", "3") for b_ in ("0", "1", "2", "5")
] + [
    "%s[%s]" % (st_, a_) for st_ in ("iota(0)", "cycle([1, 2])", "(iota(0) lazy_map (*2))") for a_ in ("0", "3", "1.5", "\"a\"", "null", "[]")
] + [
    "%(A)s::precedence = %(B)s", "freeze (\\p -> p + %(A)s)", "F\"{%(A)s}\"", "%(A)s . %(B)s", "%(A)s then %(B)s", "%(A)s <=> %(B)s",
]
OPS = ["+", "-", "*", "/", "%", "//", "%%", "/!", "^", "&", "|", "~", "<<", ">>", "==", "<", "<=", "max", "gcd", "lcm", "++", "**", ".+", "+.", "..",
       "||", "&&", "--", "|.", "zip", "til", "to", "$", ".*", "!!", "!?", "in"]
SMALL_OPERANDS = ["0", "1", "2", "3", "4", "(0-1)", "5", '"é"', '"€uro"', '"k"', "[0]", "[1, 1]", "(0-5)", "(2^63-1)", "(0-2^63)", "2^64", "(1/2)", "1.5", "(0.0/0.0)", "(1.0/0.0)", "(1+2i)", '""', '"a"', '"héllo"',
                  "[]", "[1, 2, 3]", "[[1, 2], [3]]", '["a"]', "{}", '{"a": 1}', "{:0}", "V()", "V(1, 2)", 'B""', "B[255]", "(1 to 3)", "(1 to 0)", "null",
                  "id", "(+1)", "(\\p, q -> p)", "int", "str", "list", "x", "y", "len", '"\\u{D7FF}"', '"\\u{E000}"', '"\\u{10FFFF}"', '"\\0"',
                  '"1e-9"', '"1/0.0"', '"1.5/0"', '"2.50"', '"-0"', '"0x10"',
                  "{1: len}", "[{1: id}]", "{1: 1 to 3}", "(2^64 - 2^64)", "(1 // 2)", "(1 >> 3)"]


def subst(t, c):
    for k in ("A", "B", "C", "OP2", "OP"):
        t = t.replace("%(" + k + ")s", str(c.get(k, "null")))
    return t


def check_stmts(nl, cases, ctx=None):
    """cases: list of {t: template index, A, B, C: operand sources, OP, OP2}"""
    pre = ["x := [1, [2, 3], {\"k\": [4]}, \"str\", V(5, 6), B[7]]", "y := {\"a\": [1, 2], \"b\": 3}", "a := 0", "b := 0", "c := 0",
           "z_untouched := [1, [2, 3], {\"k\": 4}]"]
    fails = []
    stmts = []
    for c in cases:
        t = TEMPLATES[c["t"] % len(TEMPLATES)]
        stmts.append(subst(t, c))
    # each statement in a fresh session (after the prelude): faults may legitimately alter x/y/a/b/c
    for i, s in enumerate(stmts):
        c = cases[i]
        if sizelike_stmt(s, c):
            if ctx is not None:
                ctx.exclude("size-like operator with huge integer")
            continue
        steps = pre + ["try (%s) catch e__ -> \"caught\"" % s, PROBE]
        try:
            res = nl.run(steps, fuel=200_000, stop_on_panic=True, timeout=40)
        except Inconclusive as e:
            if e.kind in ("abort", "crash"):
                j = isolate_abort(nl, pre, [steps[-2]], fuel=200_000)
                if j is not None:
                    fails.append(Fail("C14:abort:stmt:%d" % (c["t"] % len(TEMPLATES)), "%s kills the interpreter process" % s, index=i))
                    continue
            raise
        r = res[len(pre)] if len(res) > len(pre) else None
        if r is None:
            raise GeneratorBug("prelude failed for %s: %s" % (s, res))
        tname = TEMPLATES[c["t"] % len(TEMPLATES)]
        if r["status"] == "parse_error":
            if ctx is not None:
                ctx.exclude("template instance does not parse")
            continue
        caught = r["status"] == "ok" and r.get("value") == {"s": "caught"}
        if ctx is not None:
            ctx.count(s, caught, "stmt:%s" % ("caught" if caught else r["status"]))
            if caught:
                ctx.sample({"stmt": s})
        if r["status"] == "panic":
            p = r["panic"]
            fails.append(Fail("C14:panic:stmt:%s:%s:%s" % (tname, loc_file(p.get("loc")), msg_class(p.get("msg"))),
                              "%s panicked: %s at %s" % (s, p.get("msg"), p.get("loc")), {"src": s}, index=i))
            continue
        if r["status"] == "fuel":
            fails.append(Fail("C14:nonterminating:stmt:%s" % tname, "%s did not terminate within 200000 steps" % s, {"src": s}, index=i))
            continue
        pr = res[len(pre) + 1]
        if pr["status"] != "ok" or norm(pr["value"]) != PROBE_WANT:
            fails.append(Fail("C14:state:stmt:%s" % tname, "after the caught failure of %s an unrelated variable / the session is damaged: %s" % (s, pr), index=i))
    return fails


# ---- exhaustive template x operand enumeration ------------------------------------------------------------
# every statement runs inside a lambda whose parameters shadow x, y, a, b, c, so nothing outlives it and the
# whole enumeration shares one session.
WRAP = "(\\x, y, a, b, c -> try (%s) catch e__ -> \"caught\")([1, [2, 3], {\"k\": [4]}, \"str\", V(5, 6), B[7]], {\"a\": [1, 2], \"b\": 3}, 0, 0, 0)"
GLOBAL_EFFECT = ("::precedence", "struct ")
OPND3 = ["0", "1", "3", "(0-1)", "(2^63-1)", "(0-2^63)", "int(\"-9223372036854775808\")", "2^64", "(1/2)", "1.5", '"a"', '"é"', "[]", "[1, 2, 3]", '{"a": 1}', "V(1, 2)", "B[255]", "(1 to 3)",
         "null", "(+1)", "x", "int", "{1: len}", "(2^64 - 2^64)", "(1 // 2)", "(1+2i)", "2i", "(0.0/0.0)", "(1.0/0.0)"]
OPS_ENUM = ["+", "/", "%", "//", "%%", "/!", "^", "<<", "++", "**", ".+", "||", "zip", "til", "$", "!!", "max", "&", "=="]


def template_cases(ti):
    t = TEMPLATES[ti]
    slots = [k for k in ("A", "B", "C") if "%(" + k + ")s" in t]
    has_op = "%(OP)s" in t
    has_op2 = "%(OP2)s" in t
    opnds = SMALL_OPERANDS if len(slots) <= 2 and not has_op else OPND3
    if has_op2:
        opnds = OPND3[:12]
    for tup in itertools.product(opnds, repeat=len(slots)):
        c = dict(zip(slots, tup))
        for op in (OPS_ENUM if has_op else [None]):
            for op2 in (OPS_ENUM[:6] if has_op2 else [None]):
                d = dict(c)
                if op:
                    d["OP"] = op
                if op2:
                    d["OP2"] = op2
                yield d


BIG_MARKS = ("2^63", "2^64", "9223372036854775808", "(1.0/0.0)")
SIZE_OPS = (".*", "*.", "**", "^", "<<", ">>", "$", "*", "til", "to", "$*", "*$", "^^", "window", "combinations", "repeat")


def sizelike_stmt(s, c):
    """huge integer operand next to an operator / builtin that allocates or iterates proportionally"""
    if not any(m in s for m in BIG_MARKS):
        return False
    if any(op in (c.get("OP"), c.get("OP2")) for op in SIZE_OPS):
        return True
    return any(w in s for w in (".*", "**", "$*", "*$", "^^", "window", "combinations", "repeat"))


def check_tmpl(nl, case, ctx=None):
    ti = case["t"]
    t = TEMPLATES[ti]
    if any(g in t for g in GLOBAL_EFFECT):
        return None
    fails, seen = [], set()
    batch = []

    def flush():
        if not batch:
            return None
        srcs = [WRAP % s for s, _ in batch]
        try:
            results = nl.run(srcs, fuel=200_000, stop_on_panic=False, timeout=90)
        except Inconclusive as e:
            if e.kind == "hang":
                j = isolate_hang(nl, [], srcs, fuel=200_000)
                if j is None:
                    raise
                return Fail("C14:hang:stmt:%s" % t, "%s does not return within 20 s" % batch[j][0], {"src": batch[j][0]})
            if e.kind not in ("abort", "crash"):
                raise
            j = isolate_abort(nl, [], srcs, fuel=200_000)
            if j is None:
                raise
            return Fail("C14:abort:stmt:%s" % t, "%s kills the interpreter process (%s)" % (batch[j][0], e.detail), {"src": batch[j][0]})
        for (s, c), r in zip(batch, results):
            if r["status"] == "parse_error":
                if ctx is not None:
                    ctx.exclude("template instance does not parse")
                continue
            caught = r["status"] == "ok" and r.get("value") == {"s": "caught"}
            if ctx is not None:
                ctx.count(s, caught, "tmpl:%s" % ("caught" if caught else r["status"]))
                if caught:
                    ctx.sample({"stmt": s})
            if r["status"] == "panic":
                p = r["panic"]
                sig = "C14:panic:stmt:%s:%s:%s" % (t, loc_file(p.get("loc")), msg_class(p.get("msg")))
                if sig not in seen:
                    seen.add(sig)
                    fails.append(Fail(sig, "%s panicked: %s at %s" % (s, p.get("msg"), p.get("loc")), {"src": s}))
            elif r["status"] == "fuel":
                sig = "C14:nonterminating:stmt:%s" % t
                if sig not in seen:
                    seen.add(sig)
                    fails.append(Fail(sig, "%s did not terminate within 200000 steps" % s, {"src": s}))
        del batch[:]
        return None

    for c in template_cases(ti):
        s = subst(t, c)
        if sizelike_stmt(s, c):
            if ctx is not None:
                ctx.exclude("size-like operator with huge integer")
            continue
        batch.append((s, c))
        if len(batch) >= 400:
            f = flush()
            if f is not None:
                return fails + [f]
    f = flush()
    if f is not None:
        fails.append(f)
    return fails


CHECKS = {"sweep": check_sweep, "stmts": check_stmts, "tmpl": check_tmpl}


def worker(ctx):
    globs = [g["name"] for g in ctx.nl.globals() if g["kind"] in ("builtin", "type") and g["name"] not in DENY
             and not g["name"].startswith("__internal")]
    allnames = [n for n, _, _, _ in POOL]
    names2 = allnames if ctx.thorough else QUICK
    names3 = QUICK[:14] if ctx.thorough else ["one", "i64", "f15", "su", "l123", "ddef", "null", "finc"]
    jobs = []
    for f in globs:
        jobs.append({"f": f, "k": 0, "names": []})
        jobs.append({"f": f, "k": 1, "names": allnames})
        jobs.append({"f": f, "k": 2, "names": names2})
        jobs.append({"f": f, "k": 3, "names": names3})
    for n, job in enumerate(jobs):
        if n % ctx.nworkers == ctx.index:
            ctx.check("sweep", job)
    for ti in range(len(TEMPLATES)):
        if (ti + 7) % ctx.nworkers == ctx.index:
            ctx.check("tmpl", {"t": ti})
    opnd = st.sampled_from(SMALL_OPERANDS)
    case = st.fixed_dictionaries({"t": st.integers(0, len(TEMPLATES) - 1), "A": opnd, "B": opnd, "C": opnd,
                                  "OP": st.sampled_from(OPS), "OP2": st.sampled_from(OPS)})
    ctx.hyp(st.lists(case, min_size=16, max_size=16), lambda b: ctx.check("stmts", b), ctx.share(ctx.scale(800, 40000)), label="c14s")
