"""C10 - Pythonic indexing and slicing on every sequence kind.

Exhaustive bounded grid: kinds x lengths 0..6 x (index set | slice-bound pairs | accessors | writes),
compared with Python list/bytes indexing on the element list. Plus Hypothesis-generated extreme pairs.
"""
import itertools

from hypothesis import strategies as st

from .gens import wide_ints
from .core import Fail, GeneratorBug, isolate_abort
from .runner import Inconclusive
from .values import Vec, mcanon, norm, render, render_int

PID = "C10"
LEVEL = "exploration"
EXHAUSTIVE = True
RULE = ("exhaustive grid over 8 sequence kinds x lengths 0..6 x 34 index values / 27x27 slice-bound pairs / all accessors "
        "(two call forms each) / write forms; a case is non-trivial when the index is negative, or |i| >= len, or a bound is "
        "omitted or extreme (|b| >= 2^31), or len = 0, or the kind is not list; distinct by source text")
ASSUMPTIONS = [
    "Python list/bytes indexing and slicing is the reference",
    "strings are modelled as their UTF-8 bytes; a result that is valid UTF-8 is a string, otherwise bytes (observed convention)",
    "multi-byte strings for s[i], s[a:b] and the byte-based accessors first/second/third/last/tail/butlast/take/drop; "
    "uncons/unsnoc/only are character-based on strings (observed) and are exercised on ASCII strings only",
    "slice bounds beyond 64 bits may raise; `!?` with a negative index may return null or the element",
    "stream results are compared after list()",
]

BIG = [2 ** 31, -(2 ** 31), 2 ** 63 - 1, -(2 ** 63 - 1), -(2 ** 63), 2 ** 63, 2 ** 64, -(2 ** 64), 10 ** 30]
NONINT = ["1.0", "(1/2)", '"a"', "null"]

PRELUDE = ["ls := \\v -> if (v is stream) list(v) else v",
           "ls2 := \\p -> if (p is list) (p map ls) else ls(p)"]


def kinds(L):
    """(kind, source, element model list, result builder)"""
    ints = [10 * (i + 1) for i in range(L)]
    chars = "aé€😀bz"[:L]
    sb = chars.encode("utf-8")
    asc = "abcxyz"[:L]
    out = [
        ("list", render(ints), ints, lambda xs: list(xs), lambda x: x),
        ("vector", "V(%s)" % ", ".join(map(str, ints)), ints, lambda xs: Vec(xs), lambda x: x),
        ("bytes", "B[%s]" % ",".join(str(i + 1) for i in range(L)), [i + 1 for i in range(L)], lambda xs: bytes(xs), lambda x: x),
        ("string", render(chars), list(sb), str_result, lambda x: str_result([x])),
        ("ascii", render(asc), list(asc.encode()), str_result, lambda x: str_result([x])),
        ("range", "(1 to %d)" % L, list(range(1, L + 1)), lambda xs: list(xs), lambda x: x),
        ("wrapped", "stream(%s)" % render(ints), ints, lambda xs: list(xs), lambda x: x),
        ("lazymap", "((1 to %d) lazy_map (*10))" % L, ints, lambda xs: list(xs), lambda x: x),
        # partly consumed streams: the elements already taken must not be addressable any more
        ("wrapped_drop", "(stream(%s) drop 2)" % render([1, 2] + ints), ints, lambda xs: list(xs), lambda x: x),
        ("wrapped_slice", "stream(%s)[1:]" % render([0] + ints), ints, lambda xs: list(xs), lambda x: x),
        ("wrapped_uncons", "uncons(stream(%s))[1]" % render([0] + ints), ints, lambda xs: list(xs), lambda x: x),
        ("range_tail", "tail(0 to %d)" % L, list(range(1, L + 1)), lambda xs: list(xs), lambda x: x),
        ("lazymap_drop", "(((0-1) to %d) lazy_map (*10) drop 2)" % L, ints, lambda xs: list(xs), lambda x: x),
        ("wrapped_str_drop", "(stream(%s) drop 1)" % render("q" + asc), list(asc), lambda xs: list(xs), lambda x: x),
    ]
    return out


STREAMS = ("range", "wrapped", "lazymap", "wrapped_drop", "wrapped_slice", "wrapped_uncons", "range_tail", "lazymap_drop", "wrapped_str_drop")


def str_result(bs):
    b = bytes(bs)
    try:
        return b.decode("utf-8")
    except UnicodeDecodeError:
        return b


def isrc(i):
    return render_int(i)


def build_cases(kind, src, E, mk, mk1, L):
    """yield (label, expr, expectation) with expectation ('eq', model) | ('err',) | ('either', model) | ('in', [models])"""
    n = len(E)
    S = src
    idx = list(range(-n - 3, n + 4)) + BIG
    wrap = "ls2(%s)" if kind in STREAMS else "%s"
    # --- index reads
    for i in idx:
        ok = -n <= i < n
        yield ("index", wrap % ("%s[%s]" % (S, isrc(i))), ("eq", mk1(E[i])) if ok else ("err",), i)
        for form in ("%s !! %s", "(!! %s)(%s)"):
            e = form % ((S, isrc(i)) if form.startswith("%s !!") else (isrc(i), S))
            yield ("!!", wrap % e, ("eq", mk1(E[i])) if ok else ("err",), i)
        if kind not in STREAMS:
            if 0 <= i < n:
                exp = ("eq", mk1(E[i]))
            elif i >= n:
                exp = ("eq", None)
            else:
                exp = ("in", [None] + ([mk1(E[i])] if -n <= i else []))
            yield ("!?", "%s !? %s" % (S, isrc(i)), exp, i)
            if abs(i) < 2 ** 63:
                yield ("!%", "%s !%% %s" % (S, isrc(i)), ("eq", mk1(E[i % n])) if n else ("err",), i)
    # small index values held in big-integer representation address the same positions
    for i in range(-n - 1, n + 2):
        ok = -n <= i < n
        bi = "(%d - %d)" % (2 ** 70 + i, 2 ** 70)
        yield ("index_bigrepr", wrap % ("%s[%s]" % (S, bi)), ("eq", mk1(E[i])) if ok else ("err",), i)
        yield ("slice_bigrepr", wrap % ("%s[%s:]" % (S, bi)), ("eq", mk(E[i:])), (i, None))
        yield ("slice_bigrepr", wrap % ("%s[:%s]" % (S, bi)), ("eq", mk(E[:i])), (None, i))
        yield ("take_bigrepr", wrap % ("%s take %s" % (S, bi)), ("eq", mk(E[:i])), i)
        if kind in ("list", "vector", "bytes"):
            e2 = list(E)
            if ok:
                e2[i] = 7
            yield ("write_bigrepr", "(\\x -> (x[%s] = 7; x))(%s)" % (bi, S), ("eq", mk(e2)) if ok else ("err",), i)
    for t in NONINT:
        yield ("index_nonint", wrap % ("%s[%s]" % (S, t)), ("err",), None)
    # --- slices
    bounds = [None] + list(range(-n - 2, n + 3)) + [2 ** 31, -(2 ** 31), 2 ** 63 - 1, -(2 ** 63), 2 ** 64, -(2 ** 64)]
    if kind != "string" or True:
        for a, b in itertools.product(bounds, bounds):
            sa = "" if a is None else isrc(a)
            sb_ = "" if b is None else isrc(b)
            want = mk(E[slice(a, b)])
            fits = all(x is None or -(2 ** 63) <= x < 2 ** 63 for x in (a, b))
            yield ("slice", wrap % ("%s[%s:%s]" % (S, sa, sb_)), ("eq", want) if fits else ("either", want), (a, b))
            # the same slice through the section forms: every combination of given and open slots
            if a is not None and b is not None and fits:
                yield ("slice_section", wrap % ("(_[_:_])(%s, %s, %s)" % (S, sa, sb_)), ("eq", want), (a, b))
                yield ("slice_section", wrap % ("(_[%s:_])(%s, %s)" % (sa, S, sb_)), ("eq", want), (a, b))
                yield ("slice_section", wrap % ("(_[_:%s])(%s, %s)" % (sb_, S, sa)), ("eq", want), (a, b))
            elif a is not None and b is None and fits:
                yield ("slice_section", wrap % ("(_[_:])(%s, %s)" % (S, sa)), ("eq", want), (a, b))
            elif a is None and b is not None and fits:
                yield ("slice_section", wrap % ("(_[:_])(%s, %s)" % (S, sb_)), ("eq", want), (a, b))
        for t in NONINT[:2]:
            yield ("slice_nonint", wrap % ("%s[%s:]" % (S, t)), ("err",), None)
    # on multi-byte strings the positional accessors are byte-based like indexing (observed); uncons / unsnoc / only are
    # character-based there and are exercised on the ASCII string only
    multibyte = kind == "string"
    # --- accessors (two call forms each)
    def acc(name, f1, f2, exp):
        yield (name, wrap % (f1 % S), exp, None)
        yield (name, wrap % (f2 % S), exp, None)
    for name, i in (("first", 0), ("second", 1), ("third", 2), ("last", -1)):
        exp = ("eq", mk1(E[i])) if -n <= i < n else ("err",)
        yield from acc(name, name + "(%s)", "%s . " + name, exp)
    yield from acc("tail", "tail(%s)", "%s then tail", ("eq", mk(E[1:])))
    yield from acc("butlast", "butlast(%s)", "%s . butlast", ("eq", mk(E[:-1])))
    for k in list(range(-n - 2, n + 3)) + [2 ** 31, 2 ** 63 - 1, -(2 ** 63)]:
        yield ("take", wrap % ("%s take %s" % (S, isrc(k))), ("eq", mk(E[:k])), k)
        yield ("take", wrap % ("(take %s)(%s)" % (isrc(k), S)), ("eq", mk(E[:k])), k)
        yield ("drop", wrap % ("%s drop %s" % (S, isrc(k))), ("eq", mk(E[k:])), k)
        yield ("drop", wrap % ("(_ drop %s)(%s)" % (isrc(k), S)), ("eq", mk(E[k:])), k)
    if multibyte:
        return
    yield from acc("uncons", "uncons(%s)", "%s . uncons", ("eq", [mk1(E[0]), mk(E[1:])]) if n else ("err",))
    yield from acc("unsnoc", "unsnoc(%s)", "%s . unsnoc", ("eq", [mk(E[:-1]), mk1(E[-1])]) if n else ("err",))
    yield from acc("only", "only(%s)", "%s . only", ("eq", mk1(E[0])) if n == 1 else ("err",))
    # --- writes address the same positions as reads
    if kind in ("list", "vector", "bytes", "ascii"):
        newv, newsrc = {"list": (7, "7"), "vector": (7, "7"), "bytes": (7, "7"), "ascii": (ord("q"), '"q"')}[kind]
        for i in idx:
            ok = -n <= i < n
            e2 = list(E)
            if ok:
                e2[i] = newv
            yield ("write", "(\\x -> (x[%s] = %s; x))(%s)" % (isrc(i), newsrc, S), ("eq", mk(e2)) if ok else ("err",), i)
            if kind in ("list", "vector", "bytes"):
                e3 = list(E)
                if ok:
                    e3[i] = e3[i] + 1
                yield ("opassign", "(\\x -> (x[%s] += 1; x))(%s)" % (isrc(i), S), ("eq", mk(e3)) if ok else ("err",), i)
        if kind == "list":
            for i in idx:
                ok = -n <= i < n
                e2 = list(E)
                if ok:
                    r = e2.pop(i)
                yield ("remove", "(\\x -> (r := remove x[%s]; [r, x]))(%s)" % (isrc(i), S), ("eq", [r, e2]) if ok else ("err",), i)
                e4 = list(E)
                if ok:
                    e4[i] = 7
                yield ("|..", "%s |.. [%s, 7]" % (S, isrc(i)), ("eq", e4) if ok else ("err",), i)
            for a, b in itertools.product(bounds, bounds):
                sa = "" if a is None else isrc(a)
                sb_ = "" if b is None else isrc(b)
                e2 = list(E)
                rem = e2[slice(a, b)]
                del e2[slice(a, b)]
                fits = all(x is None or -(2 ** 63) <= x < 2 ** 63 for x in (a, b))
                yield ("remove_slice", "(\\x -> (r := remove x[%s:%s]; [r, x]))(%s)" % (sa, sb_, S),
                       ("eq", [rem, e2]) if fits else ("either", [rem, e2]), (a, b))
            yield ("pop", "(\\x -> (r := pop x; [r, x]))(%s)" % S, ("eq", [E[-1], E[:-1]]) if n else ("err",), None)
            # every-assignment and every-op-assignment over a slice clamp their bounds exactly like a slice read
            for a, b in itertools.product(bounds, bounds):
                fits = all(x is None or -(2 ** 63) <= x < 2 ** 63 for x in (a, b))
                if not fits:
                    continue
                sa = "" if a is None else isrc(a)
                sb_ = "" if b is None else isrc(b)
                sel = list(range(n))[slice(a, b)]
                e5 = [7 if i in sel else x for i, x in enumerate(E)]
                e6 = [x + 1 if i in sel else x for i, x in enumerate(E)]
                yield ("every_slice_set", "(\\x -> (every x[%s:%s] = 7; x))(%s)" % (sa, sb_, S), ("eq", e5), (a, b))
                yield ("every_slice_op", "(\\x -> (every x[%s:%s] += 1; x))(%s)" % (sa, sb_, S), ("eq", e6), (a, b))


def nontrivial(kind, n, extra):
    if kind != "list" or n == 0:
        return True
    if extra is None:
        return False
    xs = extra if isinstance(extra, tuple) else (extra,)
    for x in xs:
        if x is None or x < 0 or abs(x) >= n:
            return True
    return False


def judge(label, expr, exp, r, kind, n):
    sig = "C10:%s:%s" % (kind, label)
    if r["status"] == "parse_error":
        raise GeneratorBug("does not parse: %s" % expr)
    if r["status"] in ("panic", "fuel"):
        return Fail(sig + ":" + r["status"], "%s -> %s" % (expr, {k: r.get(k) for k in ("status", "panic")}))
    if exp[0] == "err":
        if r["status"] != "err":
            return Fail(sig + ":should_raise", "%s: expected an index error, got %s" % (expr, r.get("value")))
        return None
    if r["status"] == "err":
        if exp[0] == "either":
            return None
        return Fail(sig + ":raised", "%s: expected %s, raised %r" % (expr, mcanon(exp[1]) if exp[0] != "in" else [mcanon(x) for x in exp[1]], r.get("msg")))
    got = norm(r["value"])
    if exp[0] in ("eq", "either"):
        if got != mcanon(exp[1]):
            return Fail(sig + ":wrong", "%s: expected %s, got %s" % (expr, mcanon(exp[1]), got))
    elif exp[0] == "in":
        if got not in [mcanon(x) for x in exp[1]]:
            return Fail(sig + ":wrong", "%s: expected one of %s, got %s" % (expr, [mcanon(x) for x in exp[1]], got))
    return None


def check_grid(nl, case, ctx=None):
    """case: {kind_index, L}"""
    L = case["L"]
    kind, src, E, mk, mk1 = kinds(L)[case["ki"]]
    items = list(build_cases(kind, src, E, mk, mk1, L))
    fails = []
    B = 400
    sid = nl.open()
    try:
        pre = nl.run(PRELUDE, sid=sid)
        if any(r["status"] != "ok" for r in pre):
            raise GeneratorBug("prelude failed")
        for k in range(0, len(items), B):
            chunk = items[k:k + B]
            try:
                results = nl.run([it[1] for it in chunk], sid=sid, fuel=300_000, stop_on_panic=False, timeout=120)
            except Inconclusive as e:
                if e.kind not in ("abort", "crash"):
                    raise
                # the interpreter process died on a tiny sequence: find the expression; a deterministic
                # abort on an input whose correct result has at most len elements is a failure of the
                # access, not a resource limit of the harness
                j = isolate_abort(nl, PRELUDE, [it[1] for it in chunk])
                if j is None:
                    raise
                label, expr = chunk[j][0], chunk[j][1]
                return [Fail("C10:%s:%s:abort" % (kind, label), "%s kills the interpreter process (%s)" % (expr, e.detail), {"expr": expr})]
            for (label, expr, exp, extra), r in zip(chunk, results):
                f = judge(label, expr, exp, r, kind, len(E))
                if r.get("poisoned"):
                    nl.run(PRELUDE, sid=sid)
                if ctx is not None:
                    nt = nontrivial(kind, len(E), extra)
                    ctx.count(expr, nt, "%s:%s" % (kind, label))
                    if nt:
                        ctx.sample({"expr": expr, "outcome": r.get("value", r["status"])})
                if f is not None:
                    f.data = {"expr": expr}
                    fails.append(f)
    finally:
        nl.close_session(sid)
    return fails[:5]


def check_expr(nl, case, ctx=None):
    """replay / random form: a single (kind, L, label, expr) re-derived from the grid by text"""
    L = case["L"]
    kind, src, E, mk, mk1 = kinds(L)[case["ki"]]
    for label, expr, exp, extra in build_cases(kind, src, E, mk, mk1, L):
        if expr == case["expr"]:
            r = nl.run(PRELUDE + [expr], fuel=300_000, stop_on_panic=False)[-1]
            return judge(label, expr, exp, r, kind, len(E))
    return None


def check_rand(nl, cases, ctx=None):
    """random long sequences with random (possibly extreme) index / slice bounds: list and bytes kinds"""
    items = []
    for c in cases:
        E = c["xs"]
        S = render(E) if c["kind"] == "list" else "B[%s]" % ",".join(map(str, E))
        mk = (lambda xs: list(xs)) if c["kind"] == "list" else (lambda xs: bytes(xs))
        n = len(E)
        if "i" in c:
            i = c["i"]
            ok = -n <= i < n
            items.append(("index", "%s[%s]" % (S, isrc(i)), ("eq", E[i]) if ok else ("err",), c))
        else:
            a, b = c["a"], c["b"]
            fits = all(x is None or -(2 ** 63) <= x < 2 ** 63 for x in (a, b))
            items.append(("slice", "%s[%s:%s]" % (S, "" if a is None else isrc(a), "" if b is None else isrc(b)),
                          ("eq" if fits else "either", mk(E[slice(a, b)])), c))
    results = nl.run([it[1] for it in items], fuel=300_000, stop_on_panic=False)
    fails = []
    for n_, ((label, expr, exp, c), r) in enumerate(zip(items, results)):
        f = judge(label, expr, exp, r, c["kind"], len(c["xs"]))
        if ctx is not None:
            ctx.count(expr, True, "rand:%s:%s" % (c["kind"], label))
        if f is not None:
            f.index = n_
            fails.append(f)
    return fails


CHECKS = {"grid": check_grid, "expr": check_expr, "rand": check_rand}


def worker(ctx):
    maxL = ctx.scale(6, 9)
    jobs = [(ki, L) for L in range(0, maxL + 1) for ki in range(len(kinds(0)))]
    for n, (ki, L) in enumerate(jobs):
        if n % ctx.nworkers == ctx.index:
            ctx.check("grid", {"ki": ki, "L": L})
    ext = st.one_of(st.integers(-40, 40), st.sampled_from(BIG), st.integers(-(2 ** 63), 2 ** 63 - 1), st.integers(-(2 ** 70), 2 ** 70), wide_ints(6, 72))
    xs = st.lists(st.integers(0, 255), min_size=0, max_size=30)
    c1 = st.builds(lambda k, e, i: {"kind": k, "xs": e, "i": i}, st.sampled_from(["list", "bytes"]), xs, ext)
    c2 = st.builds(lambda k, e, a, b: {"kind": k, "xs": e, "a": a, "b": b}, st.sampled_from(["list", "bytes"]), xs,
                   st.one_of(st.none(), ext), st.one_of(st.none(), ext))
    ctx.hyp(st.lists(st.one_of(c1, c2), min_size=32, max_size=32), lambda b: ctx.check("rand", b),
            ctx.share(ctx.scale(400, 20000)), label="c10r")
