"""C08 - exact, coherent equality and ordering across numeric types.

Oracle: exact mathematical comparison in Python (Fraction(float) is exact; infinities explicit).
  grid    exhaustive pool x pool: == != < <= > >= <=> >=< min max against the exact order
          (pairwise agreement with a mathematical total order implies trichotomy, symmetry,
          transitivity and compatibility on the pool)
  rnd     Hypothesis pairs of values that sit within an ulp / a tiny fraction of each other
  sort    random lists: result ordered, a permutation of the input, ties in input order
  lex     sequences compare lexicographically by the same element order; incomparable kinds raise
"""
import math
from fractions import Fraction

from hypothesis import strategies as st

from .core import Fail, GeneratorBug
from .values import Vec, canon, from_canon, kind, level, norm, real_cmp, render, render_int
from .test_c07 import rat_src, s_floats, s_ints, s_rats

PID = "C08"
LEVEL = "exploration"
RULE = ("exhaustive pool x pool grid (pool built around float rounding boundaries) plus Hypothesis pairs, sort "
        "lists and sequence pairs; a case is non-trivial when the two values differ in level, or are within "
        "one ulp / 2^-60 relative of each other without being the same literal, or exceed 2^53; distinct by source text")
ASSUMPTIONS = [
    "fractions.Fraction(float) is the exact value of a double",
    "ordering with NaN must raise (observed and read as 'incomparable'); min/max/sort with NaN are not asserted",
    "complex numbers are outside the statement's ordering claims (only == on them is checked in C09)",
    "min/max may return either representative when both arguments are equal by value",
]
EXHAUSTIVE = False

OPS = ["==", "!=", "<", "<=", ">", ">=", "<=>", ">=<"]

def pair_src(sa, sb):
    parts = ["try (a %s b) catch _ -> \"E\"" % o for o in OPS]
    parts.append("try (min(a, b)) catch _ -> \"E\"")
    parts.append("try (max(a, b)) catch _ -> \"E\"")
    # the streaming folds behind `yield .. into min / max` order (and refuse) exactly like the direct forms
    parts.append("try (for (x <- [a, b]) yield x into min) catch _ -> \"E\"")
    parts.append("try (for (x <- [a, b]) yield x into max) catch _ -> \"E\"")
    # a float carried as a complex number with zero imaginary part is still compared with reals by exact value
    parts.append("try ((if (a is float) (a + 0.0i) else a) == b) catch _ -> \"E\"")
    parts.append("try ((if (a is float) (a + 0.0i) else a) != b) catch _ -> \"E\"")
    return "(\\a, b -> [%s])(%s, %s)" % (", ".join(parts), sa, sb)


E = {"s": "E"}


def is_nan(v):
    return isinstance(v, float) and math.isnan(v)


def judge_pair(a, b, sa, sb, res):
    src = pair_src(sa, sb)
    la, lb = ["int", "rational", "float"][level(a)], ["int", "rational", "float"][level(b)]
    sig = "C08:pair:%s,%s" % (la, lb)
    if res["status"] == "parse_error":
        raise GeneratorBug("does not parse: %s" % src)
    if res["status"] != "ok":
        return Fail(sig + ":" + res["status"], "%s -> %s" % (src, res))
    out = [norm(x) for x in res["value"]["l"]]
    c = real_cmp(a, b)
    fails = []

    def expect(i, want, what):
        if out[i] != want:
            fails.append("%s: expected %s, got %s" % (what, want, out[i]))

    def I(x):
        return {"i": str(int(x))}

    if c is None:
        expect(0, I(0), "a == b with NaN")
        expect(1, I(1), "a != b with NaN")
        for i, o in enumerate(OPS[2:], 2):
            expect(i, E, "a %s b with NaN must raise" % o)
        if out[10] != out[8] or out[11] != out[9]:
            fails.append("yield .. into min/max with NaN: %s / %s but min(a, b) / max(a, b): %s / %s" % (out[10], out[11], out[8], out[9]))
        expect(12, I(0), "complex-carried a == b with NaN")
        expect(13, I(1), "complex-carried a != b with NaN")
    else:
        expect(0, I(c == 0), "a == b")
        expect(1, I(c != 0), "a != b")
        expect(2, I(c < 0), "a < b")
        expect(3, I(c <= 0), "a <= b")
        expect(4, I(c > 0), "a > b")
        expect(5, I(c >= 0), "a >= b")
        expect(6, I(c), "a <=> b")
        expect(7, I(-c), "a >=< b")
        ca, cb = norm(canon(a)), norm(canon(b))
        lo = [ca] if c < 0 else ([cb] if c > 0 else [ca, cb])
        hi = [cb] if c < 0 else ([ca] if c > 0 else [ca, cb])
        if c == 0 and level(a) == 2 and level(b) == 2:
            pass  # +0.0 / -0.0: either
        if out[8] not in lo:
            fails.append("min(a, b): expected one of %s, got %s" % (lo, out[8]))
        if out[9] not in hi:
            fails.append("max(a, b): expected one of %s, got %s" % (hi, out[9]))
        if out[10] not in lo:
            fails.append("for (x <- [a, b]) yield x into min: expected one of %s, got %s" % (lo, out[10]))
        if out[11] not in hi:
            fails.append("for (x <- [a, b]) yield x into max: expected one of %s, got %s" % (hi, out[11]))
        expect(12, I(c == 0), "(a as complex with zero imaginary part) == b")
        expect(13, I(c != 0), "(a as complex with zero imaginary part) != b")
    if fails:
        near = "eq" if c == 0 else ("nan" if c is None else "ne")
        return Fail("%s:%s" % (sig, near), "%s: %s" % (src, "; ".join(fails)), {"src": src})
    return None


def nontrivial_pair(a, b, sa, sb):
    if level(a) != level(b):
        return True
    if sa != sb:
        c = real_cmp(a, b)
        if c is not None:
            try:
                x, y = Fraction(a), Fraction(b)
                if x == y or abs(x - y) <= max(abs(x), abs(y)) / 2 ** 52:
                    return True
            except (OverflowError, ValueError):
                pass
    for v in (a, b):
        if not is_nan(v) and not (isinstance(v, float) and math.isinf(v)) and abs(Fraction(v)) > 2 ** 53:
            return True
    return False


def check_pairs(nl, cases, ctx=None):
    """cases: list of {a: canon, b: canon, sa: src, sb: src}"""
    srcs = [pair_src(c["sa"], c["sb"]) for c in cases]
    results = nl.run(srcs, fuel=200_000, stop_on_panic=False)
    fails = []
    for i, (c, r) in enumerate(zip(cases, results)):
        a, b = from_canon(c["a"]), from_canon(c["b"])
        f = judge_pair(a, b, c["sa"], c["sb"], r)
        if ctx is not None:
            nt = nontrivial_pair(a, b, c["sa"], c["sb"])
            ctx.count(srcs[i], nt, "pair:L%d,L%d" % (level(a), level(b)))
            if nt:
                ctx.sample({"a": c["sa"], "b": c["sb"], "results(== != < <= > >= <=> >=< min max)": r.get("value", r["status"])})
        if f is not None:
            f.index = i
            fails.append(f)
    return fails


# ---- sort -----------------------------------------------------------------------------------------

def check_sort(nl, case, ctx=None):
    """case: {xs: [canon...], srcs: [src...]}; sort(list) must be ordered, a permutation, stable."""
    vals = [from_canon(c) for c in case["xs"]]
    src = "sort([%s])" % ", ".join(case["srcs"])
    r = nl.run([src], fuel=500_000, stop_on_panic=False)[0]
    if r["status"] == "parse_error":
        raise GeneratorBug(src)
    if ctx is not None:
        ctx.count(src, len({level(v) for v in vals}) > 1 and len(vals) >= 3, "sort:n=%d" % len(vals))
        ctx.sample({"sort": src, "result": r.get("value", r["status"])})
    if r["status"] != "ok":
        return Fail("C08:sort:" + r["status"], "%s -> %s" % (src, r))
    got = [norm(x) for x in r["value"]["l"]]
    tagged = [(norm(canon(v)), v, i) for i, v in enumerate(vals)]
    # expected: stable sort by exact value
    import functools
    exp = sorted(tagged, key=functools.cmp_to_key(lambda p, q: real_cmp(p[1], q[1])))
    if got != [e[0] for e in exp]:
        # distinguish: not a permutation / not ordered / only unstable
        what = "unstable_or_misordered"
        if sorted(map(str, got)) != sorted(str(e[0]) for e in exp):
            what = "not_permutation"
        return Fail("C08:sort:" + what, "%s: expected %s, got %s" % (src, [e[0] for e in exp], got), {"src": src})
    return None


# ---- lexicographic sequences / incomparable kinds ---------------------------------------------------

def model_cmp(a, b, top=True):
    """-1/0/1, or None when the comparison must raise, or "either" where nothing is asserted."""
    ka, kb = kind(a), kind(b)
    if ka == "null" and kb == "null":
        # equal values of the same kind: inside sequences they compare equal; at top level the
        # operators refuse null altogether. Neither is an "arbitrary answer"; top level not asserted.
        return "either" if top else 0
    num = ("int", "rational", "float")
    if ka in num and kb in num:
        return real_cmp(a, b)
    if ka == "str" and kb == "str":
        x, y = a.encode(), b.encode()
        return (x > y) - (x < y)
    if ka == "bytes" and kb == "bytes":
        return (a > b) - (a < b)
    if ka == kb and ka in ("list", "vector"):
        xs = a.xs if ka == "vector" else a
        ys = b.xs if kb == "vector" else b
        for x, y in zip(xs, ys):
            c = model_cmp(x, y, top=False)
            if c is None:
                return None
            if c != 0:
                return c
        return (len(xs) > len(ys)) - (len(xs) < len(ys))
    return None


def model_eq(a, b):
    ka, kb = kind(a), kind(b)
    num = ("int", "rational", "float")
    if ka in num and kb in num:
        return real_cmp(a, b) == 0
    if ka != kb:
        return False
    if ka in ("list", "vector"):
        xs = a.xs if ka == "vector" else a
        ys = b.xs if kb == "vector" else b
        return len(xs) == len(ys) and all(model_eq(x, y) for x, y in zip(xs, ys))
    return a == b


def check_lex(nl, cases, ctx=None):
    srcs = [pair_src(render(from_canon(c["a"])), render(from_canon(c["b"]))) for c in cases]
    results = nl.run(srcs, fuel=200_000, stop_on_panic=False)
    fails = []
    for i, (c, r) in enumerate(zip(cases, results)):
        a, b = from_canon(c["a"]), from_canon(c["b"])
        src = srcs[i]
        sig = "C08:lex:%s,%s" % (kind(a), kind(b))
        cm = model_cmp(a, b)
        if ctx is not None:
            ctx.count(src, True, "lex:%s,%s:%s" % (kind(a), kind(b), "raise" if cm is None else "ord"))
            ctx.sample({"lex": src, "expected_cmp": cm})
        if r["status"] == "parse_error":
            raise GeneratorBug(src)
        if r["status"] != "ok":
            fails.append(Fail(sig + ":" + r["status"], "%s -> %s" % (src, r), index=i))
            continue
        out = [norm(x) for x in r["value"]["l"]]

        def I(x):
            return {"i": str(int(x))}
        eq = model_eq(a, b)
        want = [I(eq), I(not eq)]
        if cm == "either":
            want += out[2:8]
        elif cm is None:
            want += [E] * 6
        else:
            want += [I(cm < 0), I(cm <= 0), I(cm > 0), I(cm >= 0), I(cm), I(-cm)]
        if out[:8] != want:
            fails.append(Fail(sig + (":must_raise" if cm is None else ":wrong"),
                              "%s: expected %s, got %s" % (src, want, out[:8]), {"src": src}, index=i))
    return fails


CHECKS = {"pairs": check_pairs, "sort": check_sort, "lex": check_lex}

# ---- pool -----------------------------------------------------------------------------------------


def pool():
    P = []

    def add(v, src=None):
        P.append((v, src if src is not None else render(v)))

    for n in [0, 1, -1, 2, 2 ** 53 - 1, 2 ** 53, 2 ** 53 + 1, -(2 ** 53) - 1, 2 ** 63 - 1, 2 ** 63, 2 ** 63 + 1, -(2 ** 63),
              -(2 ** 63) - 1, 2 ** 64 - 1, 2 ** 64, 2 ** 64 + 1, 10 ** 30, -(10 ** 30), 2 ** 1024, 10 ** 22]:
        add(n)
    add(1, "(%d - %d)" % (2 ** 70 + 1, 2 ** 70))          # small value, big representation
    add(2 ** 53 + 1, "(2^53 + 1)")
    # the machine-word extremes in machine-word representation (the rendered literals above arrive as big integers)
    add(-(2 ** 63), "int(\"-9223372036854775808\")")
    add(2 ** 63 - 1, "int(\"9223372036854775807\")")
    add(-(2 ** 63) + 1, "int(\"-9223372036854775807\")")
    add(0, "(2^64 - 2^64)")
    add(-1, "(2^64 - 2^64 - 1)")
    f13 = 1 / 3
    for x in [0.0, -0.0, 1.0, -1.0, 0.5, 1.5, -1.5, 0.1, f13, math.nextafter(f13, 1), math.nextafter(f13, 0),
              2.0 ** 53, 2.0 ** 53 + 2, 2.0 ** 63, 2.0 ** 64, -(2.0 ** 63), 1e30, 1e22, 5e-324, 1.7976931348623157e308,
              math.inf, -math.inf, math.nan, 9007199254740993.0, 0.30000000000000004]:
        add(x)
    for q in [Fraction(1, 2), Fraction(1, 3), Fraction(-1, 3), Fraction(1, 10), Fraction(0.1), Fraction(0.1) + Fraction(1, 10 ** 40),
              Fraction(0.1) - Fraction(1, 10 ** 40), Fraction(f13), Fraction(2 ** 53 + 1), Fraction(10 ** 30), Fraction(2 ** 64 + 1, 2),
              Fraction(1, 10 ** 40), Fraction(-1, 10 ** 40), Fraction(3, 2), Fraction(0), Fraction(1), Fraction(2 ** 63),
              Fraction(3, 10), Fraction(2 ** 1024), Fraction(10 ** 22 + 1)]:
        add(q)
    add(Fraction(1, 2), "(2/4)")
    add(Fraction(1), "(3/3)")
    return P


POOL = pool()

# ---- generators -----------------------------------------------------------------------------------


def perturb(v, how):
    """a value at another level that is equal to, or a hair away from, v"""
    try:
        x = Fraction(v)
    except (OverflowError, ValueError):
        return v
    if how == "float":
        try:
            return float(x)
        except OverflowError:
            return math.inf if x > 0 else -math.inf
    if how == "float_up":
        try:
            return math.nextafter(float(x), math.inf)
        except OverflowError:
            return math.inf
    if how == "float_down":
        try:
            return math.nextafter(float(x), -math.inf)
        except OverflowError:
            return -math.inf
    if how == "rat":
        return x
    if how == "rat_up":
        return x + Fraction(1, 10 ** 30)
    if how == "rat_down":
        return x - Fraction(1, 10 ** 30)
    if how == "int":
        return math.floor(x)
    if how == "int_up":
        return math.floor(x) + 1
    return v


def s_real():
    return st.one_of(s_ints(), s_rats(), s_floats())


def s_pair():
    near = st.builds(lambda v, h: (v, perturb(v, h)), s_real(),
                     st.sampled_from(["float", "float_up", "float_down", "rat", "rat_up", "rat_down", "int", "int_up"]))
    free = st.tuples(s_real(), s_real())
    swap = st.booleans()
    return st.builds(lambda p, s: {"a": canon(p[1] if s else p[0]), "b": canon(p[0] if s else p[1]),
                                   "sa": render(p[1] if s else p[0]), "sb": render(p[0] if s else p[1])},
                     st.one_of(near, near, free), swap)


def s_sortcase():
    idx = st.lists(st.integers(0, len(POOL) - 1), min_size=0, max_size=8)

    def mk(ixs):
        ixs = [i for i in ixs if not (isinstance(POOL[i][0], float) and math.isnan(POOL[i][0]))]
        return {"xs": [canon(POOL[i][0]) for i in ixs], "srcs": [POOL[i][1] for i in ixs]}
    return idx.map(mk)


def s_lexcase():
    elem = st.one_of(st.sampled_from([0, 1, 2, 2 ** 53, 2 ** 53 + 1]), st.sampled_from([1.0, 2.0, 0.5, 2.0 ** 53]),
                     st.sampled_from([Fraction(1), Fraction(1, 2), Fraction(5, 2)]))
    lst = st.lists(elem, min_size=0, max_size=3)
    mixed_elem = st.one_of(elem, st.sampled_from(["a", "", None, math.nan]), lst)
    mixed = st.lists(mixed_elem, min_size=0, max_size=3)
    vec = st.lists(elem, min_size=0, max_size=3).map(Vec)
    string = st.text(alphabet="abéz", min_size=0, max_size=3)
    byts = st.binary(min_size=0, max_size=3)
    anyv = st.one_of(elem, lst, mixed, vec, string, byts, st.none())
    samekind = st.one_of(st.tuples(lst, lst), st.tuples(mixed, mixed), st.tuples(vec, vec), st.tuples(string, string),
                         st.tuples(byts, byts), st.tuples(lst, mixed))
    # shared prefix then divergence
    prefixed = st.builds(lambda p, x, y: (p + x, p + y), lst, lst, mixed)
    pair = st.one_of(samekind, samekind, prefixed, st.tuples(anyv, anyv))
    return pair.map(lambda p: {"a": canon(p[0]), "b": canon(p[1])})


def worker(ctx):
    # 1. exhaustive grid, split across workers
    n = len(POOL)
    mine = [(i, j) for i in range(n) for j in range(n) if (i * n + j) % ctx.nworkers == ctx.index]
    B = 64
    for k in range(0, len(mine), B):
        chunk = mine[k:k + B]
        cases = [{"a": canon(POOL[i][0]), "b": canon(POOL[j][0]), "sa": POOL[i][1], "sb": POOL[j][1]} for i, j in chunk]
        ctx.check("pairs", cases)
    ctx.extra("grid_pairs", len(mine))
    ctx.extra("pool_size", n if ctx.index == 0 else 0)

    # 2. random near-equal pairs
    ctx.hyp(st.lists(s_pair(), min_size=32, max_size=32), lambda b: ctx.check("pairs", b),
            ctx.share(ctx.scale(1200, 40000)), label="c08pairs")
    # 3. sort
    ctx.hyp(s_sortcase(), lambda c: ctx.check("sort", c), ctx.share(ctx.scale(3000, 100000)), label="c08sort")
    # 4. lexicographic / incomparable
    ctx.hyp(st.lists(s_lexcase(), min_size=16, max_size=16), lambda b: ctx.check("lex", b),
            ctx.share(ctx.scale(800, 30000)), label="c08lex")
