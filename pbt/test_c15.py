"""C15 - lexing and parsing are total; literals decode exactly.

totality  (a) coverage-guided fuzzing: libFuzzer target fz_parse (fuzz/), bounded by -runs, one leg seeded with
              the repository's own programs and one from an empty corpus, with a token dictionary;
          (b) Hypothesis: token soups, mutations of the repository's programs, escape forms with boundary payloads,
              runaway strings/comments, huge numbers - through nlrun's parse (catch_unwind);
          (c) nesting-depth probe: parse in a child process on the default 8 MiB main-thread stack.
decoding  every literal syntax for integers (any size; decimal, 0x/0b/0o, NrDIGITS for N = 2..36, 64r), rationals,
          floats, imaginary numbers, strings / bytes / raw strings with every escape form: evaluate and compare
          with the value the generator started from.
"""
import glob
import math
import os
import re
import shutil
import subprocess
import tempfile

from hypothesis import strategies as st

from .gens import wide_ints
from .core import ROOT, Fail, GeneratorBug
from .values import fbits, mcanon, norm

PID = "C15"
LEVEL = "exploration"
RULE = ("libFuzzer runs on fz_parse (seeded + empty corpus) plus Hypothesis-generated texts and literal spellings; a totality "
        "case is non-trivial when the parser rejects it (an error path ran) or it contains an escape / radix / format form; a "
        "decoding case when the value is >= 2^63, non-ASCII, or uses an escape other than \\n; distinct by input text "
        "(libFuzzer executions are counted as evaluations, its corpus size as distinct inputs)")
ASSUMPTIONS = [
    "inputs with bracket nesting deeper than 200 are excluded by construction in the fuzz target and in the generators (known finding F29)",
    "nlrun parses on a 2 GiB stack; the depth probe uses a child process with the default main-thread stack",
    "a libFuzzer campaign is pinned by -seed/-runs only approximately; a saved crashing input is the reproducible unit",
]
FUZZ_BIN = os.path.join(ROOT, "fuzz", "target", "x86_64-unknown-linux-gnu", "release", "fz_parse")
NLPARSE = os.path.join(ROOT, "harness", "target", "release", "nlparse")

TOKENS = ["if", "else", "for", "while", "yield", "into", "switch", "case", "try", "catch", "throw", "break", "continue", "return", "and", "or",
          "coalesce", "struct", "freeze", "import", "literally", "every", "swap", "pop", "remove", "consume", "null", "_", "\\", "->", "<-", "<<-",
          ":=", "=", "==", "::", ":", ";", ",", "...", "!", "?", "(", ")", "[", "]", "{", "}", "`", "+", "-", "*", "/", "%", "//", "^", "++", ".+",
          "+.", "..", "$", "<", ">", "<=", ">=", "&&", "||", "|", "~", "!!", "!?", ".", "x", "y", "f", "1", "0", "2.5", "1e5", "0x1f", "36rzz", "64rAB",
          "3q", "2i", "\"s\"", "'t'", "B\"b\"", "R\"r\"", "F\"{x}\"", "F\"{x #x}\"", "#(", "#", "\n", " ", "B[", "\\\\", "∧", "∨", "≤", "🐉", "A'", "X"]


def repo_programs():
    progs = []
    try:
        src = open("/repo/tests/test.rs", encoding="utf-8").read()
        for m in re.finditer(r'simple_eval\(\s*"((?:[^"\\]|\\.)*)"', src, re.S):
            s = m.group(1)
            s = s.replace('\\"', '"').replace("\\\\", "\\").replace("\\n", "\n")
            progs.append(s)
    except OSError:
        pass
    for f in glob.glob("/repo/examples/*.noul") + glob.glob("/repo/noulib/*.noul"):
        try:
            progs.append(open(f, encoding="utf-8").read()[:2000])
        except OSError:
            pass
    return progs


def depth_ok(s, limit=200):
    d = m = 0
    for c in s:
        if c in "([{\\":
            d += 1
            m = max(m, d)
        elif c in ")]}":
            d -= 1
    return m <= limit


def check_parse(nl, case, ctx=None):
    """case: {srcs: [text...]}: every text must parse to ok / empty / parse_error"""
    srcs = [s for s in case["srcs"] if depth_ok(s)]
    if ctx is not None:
        ctx.exclude("nesting deeper than 200", len(case["srcs"]) - len(srcs))
    if not srcs:
        return None
    res = nl.parse_many(srcs, timeout=60)
    fails = []
    for i, (s, r) in enumerate(zip(srcs, res)):
        st_ = r["status"]
        if ctx is not None:
            nt = st_ == "parse_error" or any(t in s for t in ("\\x", "\\u", "0x", "r", "F\"", "F'", "#("))
            ctx.count(s, nt, "parse:%s" % st_)
            if nt:
                ctx.sample({"text": s[:200], "outcome": st_})
        if st_ == "panic":
            p = r.get("panic", {})
            fails.append(Fail("C15:parse:panic:%s" % re.sub(r"\d+", "N", p.get("msg", ""))[:60], "parse(%r) panicked: %s at %s" % (s, p.get("msg"), p.get("loc")), {"src": s}, index=i))
    return fails


# ---- literal decoding -------------------------------------------------------------------------------------------

DIG = "0123456789abcdefghijklmnopqrstuvwxyz"
B64 = "ABCDEFGHIJKLMNOPQRSTUVWXYZabcdefghijklmnopqrstuvwxyz0123456789+/"


def to_base(n, b, digits=DIG):
    if n == 0:
        return digits[0]
    out = []
    while n:
        out.append(digits[n % b])
        n //= b
    return "".join(reversed(out))


def int_literal(n, form, upper=False):
    if form == "dec":
        return str(n)
    if form == "hex":
        s = to_base(n, 16)
        return ("0X" if upper else "0x") + (s.upper() if upper else s)
    if form == "bin":
        return ("0B" if upper else "0b") + to_base(n, 2)
    if form == "oct":
        return ("0O" if upper else "0o") + to_base(n, 8)
    if form == "b64":
        return "64r" + to_base(n, 64, B64)
    base = int(form)
    s = to_base(n, base)
    return "%d%s%s" % (base, "R" if upper else "r", s.upper() if upper else s)


def esc_char(cp, form, quote):
    ch = chr(cp)
    if form == "plain":
        if ch in ("\\", quote) or cp == 0x0a and False:
            return "\\" + ch
        return ch
    if form == "short":
        m = {0x0a: "\\n", 0x0d: "\\r", 0x09: "\\t", 0x00: "\\0", 0x5c: "\\\\", 0x27: "\\'", 0x22: "\\\""}
        return m.get(cp) or esc_char(cp, "plain", quote)
    if form == "x" and cp < 256:
        return "\\x%02x" % cp
    if form in ("u{", "u(", "u[", "u<"):
        close = {"u{": "}", "u(": ")", "u[": "]", "u<": ">"}[form]
        return "\\" + form + ("%x" % cp) + close
    return esc_char(cp, "u{", quote)


def check_decode(nl, cases, ctx=None):
    items = []
    for i, c in enumerate(cases):
        t = c["t"]
        if t == "int":
            src = int_literal(c["n"], c["form"], c.get("upper", False))
            want = mcanon(c["n"])
            nt = c["n"] >= 2 ** 63 or c["form"] != "dec"
        elif t == "rat":
            src, want, nt = "%d%s" % (c["n"], "Q" if c["n"] % 2 else "q"), {"q": [str(c["n"]), "1"]}, True
        elif t == "float":
            src = c["text"]
            want = {"f": fbits(float(c["text"].rstrip("fF")))}
            nt = "e" in src.lower() or src[-1] in "fF" or len(src) > 20
        elif t == "imag":
            src = c["text"] + c["suffix"]
            want = {"c": [fbits(0.0), fbits(float(c["text"]))]}
            nt = True
        elif t == "str":
            quote = c["quote"]
            body = "".join(esc_char(cp, f, quote) for cp, f in zip(c["cps"], c["forms"]))
            # a bare \\uXXXX form must not be followed by another hex digit: only bracketed forms are generated
            src = quote + body + quote
            want = {"s": "".join(chr(cp) for cp in c["cps"])}
            nt = any(cp > 127 for cp in c["cps"]) or any(f not in ("plain",) for f in c["forms"])
        elif t == "bytes":
            quote = c["quote"]
            body, out = [], bytearray()
            for cp, f in zip(c["cps"], c["forms"]):
                if f == "x" and cp < 256:
                    body.append("\\x%02x" % cp)
                    out.append(cp)
                else:
                    body.append(esc_char(cp, f if f != "x" else "plain", quote))
                    out.extend(chr(cp).encode("utf-8"))
            src = "B" + quote + "".join(body) + quote
            want = {"b": bytes(out).hex()}
            nt = True
        elif t == "raw":
            quote = c["quote"]
            text = "".join(chr(cp) for cp in c["cps"] if chr(cp) != quote)
            src = "R" + quote + text + quote
            want = {"s": text}
            nt = "\\" in text
        elif t == "fstr":
            # format string: literal text pieces (any characters) alternating with interpolated integer / string expressions
            quote = c["quote"]
            src, out = "F" + quote, ""
            for piece in c["parts"]:
                if piece[0] == "text":
                    txt = "".join(ch for ch in piece[1] if ch not in (quote, "\\", "{", "}"))
                    src += txt
                    out += txt
                elif piece[0] == "int":
                    src += "{%d + %d}" % (piece[1], piece[2])
                    out += str(piece[1] + piece[2])
                else:
                    oq = "'" if quote == '"' else '"'
                    txt = "".join(ch for ch in piece[1] if ch not in ('"', "'", "\\", "{", "}"))
                    src += "{%s%s%s}" % (oq, txt, oq)
                    out += txt
            src += quote
            want = {"s": out}
            nt = any(ord(ch) > 127 for ch in src)
        else:
            raise ValueError(t)
        items.append((i, t, src, want, nt))
    res = nl.run(["[%s]" % it[2] for it in items], fuel=100_000, stop_on_panic=False)
    fails = []
    for (i, t, src, want, nt), r in zip(items, res):
        if ctx is not None:
            ctx.count(src, nt, "decode:%s" % t)
            if nt:
                ctx.sample({"literal": src[:120], "expected": want if len(str(want)) < 200 else "..."})
        form = cases[i].get("form", "") if t == "int" else ""
        sig = "C15:decode:%s%s" % (t, (":" + form) if form else "")
        if r["status"] == "panic":
            fails.append(Fail(sig + ":panic", "evaluating the literal %s panicked: %s" % (src, r["panic"]), index=i))
        elif r["status"] != "ok":
            fails.append(Fail(sig + ":rejected", "the literal %s was not accepted: %s" % (src[:300], r.get("msg") or r["status"]), index=i))
        else:
            got = norm(r["value"]["l"][0], nan_canonical=False)
            if got != want:
                fails.append(Fail(sig + ":wrong", "the literal %s denotes %s but evaluates to %s" % (src[:300], str(want)[:300], str(got)[:300]), index=i))
    return fails


# ---- nesting depth probe ------------------------------------------------------------------------------------------

SHAPES = {"paren": ("(", "1", ")"), "list": ("[", "1", "]"), "lambda": ("\\x -> ", "1", ""), "brace": ("{", "1", "}"), "call": ("f(", "1", ")"),
          "neg": ("-(", "1", ")"), "index": ("x[", "1", "]")}


def check_depth(nl, case, ctx=None):
    shape, d = case["shape"], case["d"]
    o, m, c = SHAPES[shape]
    text = o * d + m + c * d
    try:
        p = subprocess.run([NLPARSE], input=text.encode(), capture_output=True, timeout=120)
        rc, out = p.returncode, p.stdout.decode().strip()
    except subprocess.TimeoutExpired:
        rc, out = -999, "timeout"
    if ctx is not None:
        ctx.count("%s^%d" % (shape, d), True, "depth:%s:%s" % (shape, out or ("rc=%d" % rc)))
        ctx.stats.extra.setdefault("depth_outcomes", {})["%s^%d" % (shape, d)] = out or "abort(rc=%d)" % rc
    if rc != 0:
        return Fail("C15:depth:%s:%s" % (shape, "le200" if d <= 200 else "gt200"),
                    "parsing %d nested %s on the default stack ends the process (rc=%d): no syntax tree and no parse error" % (d, shape, rc))
    return None


CHECKS = {"parse": check_parse, "decode": check_decode, "depth": check_depth}


# ---- libFuzzer legs --------------------------------------------------------------------------------------------------

def run_fuzz(ctx, runs, seeded, seed):
    if not os.path.exists(FUZZ_BIN):
        raise GeneratorBug("fuzz target not built: run fuzz/build.sh (setup.sh does)")
    os.makedirs(os.path.join(ROOT, "work"), exist_ok=True)
    work = tempfile.mkdtemp(prefix="c15fz_", dir=os.path.join(ROOT, "work"))
    corpus = os.path.join(work, "corpus")
    arts = os.path.join(work, "artifacts") + "/"
    os.makedirs(corpus)
    os.makedirs(arts)
    if seeded:
        for k, p in enumerate(repo_programs()):
            if depth_ok(p) and len(p) < 4000:
                open(os.path.join(corpus, "seed%04d" % k), "w", encoding="utf-8").write(p)
    dict_path = os.path.join(work, "dict")
    with open(dict_path, "w", encoding="utf-8") as f:
        for t in TOKENS:
            if t.strip() and all(32 <= ord(ch) < 127 for ch in t):
                f.write('"%s"\n' % t.replace("\\", "\\\\").replace('"', '\\"'))
    cmd = [FUZZ_BIN, "-runs=%d" % runs, "-seed=%d" % (seed + 1), "-max_len=512", "-len_control=0", "-dict=" + dict_path, "-artifact_prefix=" + arts,
           "-print_final_stats=1", "-timeout=120", "-rss_limit_mb=4096", corpus]
    def unlimit():
        # the sanitizer runtime reserves terabytes of address space: undo the worker's RLIMIT_AS (soft) for this child
        import resource
        _, hard = resource.getrlimit(resource.RLIMIT_AS)
        resource.setrlimit(resource.RLIMIT_AS, (hard, hard))
    p = subprocess.run(cmd, capture_output=True, timeout=3600, preexec_fn=unlimit)
    err = p.stderr.decode("utf-8", "replace")
    execs = re.search(r"stat::number_of_executed_units:\s*(\d+)", err)
    nexec = int(execs.group(1)) if execs else 0
    ncorp = len(os.listdir(corpus))
    ctx.stats.evaluations += nexec
    ctx.cls("fuzz:%s:executions" % ("seeded" if seeded else "empty"), nexec)
    ctx.cls("fuzz:%s:corpus" % ("seeded" if seeded else "empty"), ncorp)
    # a few corpus entries as samples and as distinct inputs
    for name in sorted(os.listdir(corpus))[:2000]:
        try:
            txt = open(os.path.join(corpus, name), "rb").read().decode("utf-8", "replace")
        except OSError:
            continue
        ctx.count("fz:" + txt, True, None, n=0)
    allarts = sorted(glob.glob(arts + "*"))
    # slow-unit-* files are libFuzzer's note that one input took more than 10 s of wall clock (a loaded machine): not a failure
    slow = [c for c in allarts if os.path.basename(c).startswith("slow-unit")]
    if slow:
        ctx.cls("fuzz:slow_unit_reports", len(slow))
    crashes = [c for c in allarts if c not in slow]
    fail = None
    if p.returncode != 0 or crashes:
        data = open(crashes[0], "rb").read() if crashes else b""
        text = data.decode("utf-8", "replace")
        names = [os.path.basename(c).split("-")[0] for c in crashes]
        if any(n == "timeout" for n in names):
            kind = "timeout"
        elif any(n in ("oom", "leak") for n in names) or "out-of-memory" in err or "LeakSanitizer" in err:
            kind = "fuzzer-resource"      # the fuzzing PROCESS ran out of memory / the leak checker spoke: not a statement about parse()
        else:
            kind = "crash"
        m = re.search(r"panicked at ([^\n]*)\n([^\n]*)", err)
        diag = " | ".join(l.strip()[:200] for l in err.splitlines() if ("ERROR:" in l or "SUMMARY:" in l or "deadly signal" in l))[:600]
        fail = (text, kind, (m.group(0)[:300] if m else (diag or err[-400:])) + " artifacts=%s rc=%s" % (names, p.returncode))
    shutil.rmtree(work, ignore_errors=True)
    return fail


def worker(ctx):
    # (a) coverage-guided legs on two workers
    if ctx.index in (0, 1):
        runs = ctx.scale(300_000, 6_000_000)
        bad = run_fuzz(ctx, runs, seeded=(ctx.index == 0), seed=ctx.seed)
        if bad is not None:
            text, kind, msg = bad
            # route through the ordinary oracle so that known findings / replay files work uniformly
            ctx.check("parse", {"srcs": [text]})
            if kind in ("timeout", "fuzzer-resource"):
                # the same text parses promptly in nlrun: the fuzzer's per-input wall-clock limit was hit because the
                # machine is loaded, not because the parser loops (a real non-termination would have hung nlrun -> exit 2)
                ctx.cls("fuzz:%s_not_reproduced" % kind)
                ctx.exclude("libFuzzer %s on an input that parses promptly when replayed (campaign leg cut short): %s" % (kind, msg[:300]))
            else:
                raise GeneratorBug("libFuzzer reported a %s that nlrun's parse does not reproduce: %r (%s)" % (kind, text[:200], msg))
    # (c) depth probe
    jobs = [(s, d) for s in sorted(SHAPES) for d in (50, 100, 200)]
    for j, (s, d) in enumerate(jobs):
        if j % ctx.nworkers == ctx.index:
            ctx.check("depth", {"shape": s, "d": d})
    if ctx.index == 2:
        for d in (400, 800, 1600, 3200, 100000):
            ctx.check("depth", {"shape": "paren", "d": d})
    # (b) Hypothesis texts
    progs = [p for p in repo_programs() if len(p) < 600] or ["1 + 2"]
    tok = st.sampled_from(TOKENS)
    soup = st.lists(tok, min_size=1, max_size=30).map(lambda ts: " ".join(ts))
    soup2 = st.lists(tok, min_size=1, max_size=30).map(lambda ts: "".join(ts))

    def mutate(args):
        p, ops = args
        toks = re.findall(r"\s+|\w+|[^\w\s]", p)
        for kind, i, t in ops:
            if not toks:
                break
            i %= len(toks)
            if kind == 0:
                del toks[i]
            elif kind == 1:
                toks.insert(i, toks[i])
            elif kind == 2:
                toks[i] = t
            elif kind == 3:
                j = (i * 7 + 3) % len(toks)
                toks[i], toks[j] = toks[j], toks[i]
            else:
                toks.insert(i, t)
        return "".join(toks)
    mut = st.tuples(st.sampled_from(progs), st.lists(st.tuples(st.integers(0, 4), st.integers(0, 400), tok), min_size=1, max_size=6)).map(mutate)
    hexd = st.one_of(st.text(alphabet="0123456789abcdefABCDEF", min_size=0, max_size=12),
                     st.sampled_from(["d800", "dfff", "DBFF", "d83d\\ude00", "d7ff", "e000", "10ffff", "110000", "ffffffff", "0", "00000041"]))
    escapes = st.builds(lambda q, pre, kind, h, post: "%s%s%s%s%s%s" % (pre, q, kind, h, post, q), st.sampled_from(['"', "'"]), st.sampled_from(["", "B", "F", "R"]),
                        st.sampled_from(["\\x", "\\u", "\\u{", "\\u(", "\\u[", "\\u<", "\\", "\\q", "{", "{x #", "{x #5", "{{", "}"]), hexd,
                        st.sampled_from(["", "}", ")", "]", ">", "g", "\\"]))
    runaway = st.one_of(st.sampled_from(['"abc', "'abc", "#( never closed", "F\"{1 + ", "B'", "R\"", "[1, 2", "(((", "\\x ->", "a :=", "switch (x) case"]),
                        st.integers(1, 3000).map(lambda n: "9" * n), st.integers(1, 400).map(lambda n: "1" + "e" + "9" * n),
                        st.integers(1, 60).map(lambda n: "%dr%s" % (n, "z" * 5)), st.text(max_size=40))
    # format-string bodies: flag comments with digit runs of every length (pad widths beyond a machine word included)
    fmt = st.builds(lambda q, e, fl, w, tail: "F%s%s{%s #%s%s%s}%s%s" % (q, "é→"[len(w) % 3:], e, fl, w, tail, "", q), st.sampled_from(['"', "'"]), st.sampled_from(["1", "x", "1 + 2", '"s"', "", "'é'", "1 $ '→'"]),
                    st.sampled_from(["", "x", "X", "b", "o", "e", "d", "<", ">", "^", "0", " ", "#"]),
                    st.one_of(st.integers(0, 200).map(str), st.integers(1, 45).map(lambda k: "9" * k), st.integers(1, 45).map(lambda k: "1" + "0" * k), st.just("18446744073709551616")),
                    st.sampled_from(["", "x", "d", ".3", " ", "}"]))
    texts = st.one_of(soup, soup2, mut, mut, escapes, runaway, fmt)
    ctx.hyp(st.lists(texts, min_size=40, max_size=40).map(lambda xs: {"srcs": xs}), lambda c: ctx.check("parse", c), ctx.share(ctx.scale(800, 30000)), label="c15p")
    # decoding
    big = st.one_of(st.integers(0, 300), st.integers(0, 2 ** 70), st.integers(2 ** 63 - 2, 2 ** 64 + 2), st.integers(1, 2000).flatmap(lambda k: st.integers(0, 2 ** k)),
                    wide_ints(1, 300, signed=False), wide_ints(1, 3000, signed=False))
    forms = st.one_of(st.sampled_from(["dec", "hex", "bin", "oct", "b64"]), st.integers(2, 36).map(str))
    ints = st.builds(lambda n, f, u: {"t": "int", "n": n, "form": f, "upper": u}, big, forms, st.booleans())
    rats = st.one_of(st.integers(0, 2 ** 70), wide_ints(1, 200, signed=False)).map(lambda n: {"t": "rat", "n": n})
    ftext = st.one_of(st.builds(lambda a, b: "%d.%s" % (a, b), st.integers(0, 10 ** 6), st.text(alphabet="0123456789", min_size=1, max_size=8)),
                      st.builds(lambda a, b, e: "%d.%se%d" % (a, b, e), st.integers(0, 999), st.text(alphabet="0123456789", min_size=1, max_size=5), st.integers(-320, 308)),
                      st.builds(lambda a, e: "%de%d" % (a, e), st.integers(0, 9999), st.integers(-320, 300)),
                      st.builds(lambda a, s: "%d%s" % (a, s), st.integers(0, 10 ** 9), st.sampled_from(["f", "F"])),
                      st.builds(lambda a, b, s: "%d.%d%s" % (a, b, s), st.integers(0, 99), st.integers(0, 99), st.sampled_from(["f", "F"])))
    # long float literals: the exact decimal expansion of a double, and the midpoint between two adjacent doubles nudged
    # up / down / not at all in its last place (correct rounding needs every digit; ties go to even)
    import decimal
    dctx = decimal.Context(prec=2400)

    def dec_text(d):
        t = format(d, "f")
        return t if "." in t else t + ".0"

    def long_float(x, how):
        x = abs(x)
        if how == 0:
            return dec_text(dctx.create_decimal(x))
        y = math.nextafter(x, math.inf)
        if math.isinf(y):
            return dec_text(dctx.create_decimal(x))
        m = dctx.divide(dctx.add(dctx.create_decimal(x), dctx.create_decimal(y)), decimal.Decimal(2))
        t = dec_text(m)
        if how == 1:
            return t                      # exact tie
        if how == 2:
            return t + "0000000001"       # just above the midpoint
        return t[:-1] + "4999999999" if t[-1] == "5" else t + "0"   # just below it
    fdoubles = st.one_of(st.floats(min_value=1e-30, max_value=1e30), st.floats(min_value=0.5, max_value=4.0),
                         st.floats(min_value=0.0, allow_nan=False, allow_infinity=False), st.sampled_from([1.0, 0.1, 2.0 ** 53, 9007199254740993.0, 5e-324, 1.7976931348623157e308]))
    ftext_long = st.builds(long_float, fdoubles, st.integers(0, 3))
    fshort = st.floats(min_value=1e-6, max_value=1e15).map(lambda x: repr(x) if "e" not in repr(x) else "1.5")
    floats = st.one_of(ftext, ftext_long, ftext_long, fshort).map(lambda t: {"t": "float", "text": t})
    imags = st.builds(lambda a, b, s: {"t": "imag", "text": "%d.%d" % (a, b) if b is not None else "%d" % a, "suffix": s}, st.integers(0, 999),
                      st.one_of(st.none(), st.integers(0, 99)), st.sampled_from(["i", "j", "I", "J"]))
    cp = st.one_of(st.integers(0x20, 0x7e), st.sampled_from([0, 9, 10, 13, 0x22, 0x27, 0x5c, 0x7f, 0x80, 0xff, 0x100, 0x7ff, 0x800, 0xd7ff, 0xe000, 0xffff, 0x10000, 0x10ffff]),
                   st.integers(0, 0x10ffff).filter(lambda c: not 0xd800 <= c <= 0xdfff))
    form = st.sampled_from(["plain", "plain", "short", "x", "u{", "u(", "u[", "u<"])
    strs = st.lists(st.tuples(cp, form), max_size=10).flatmap(lambda xs: st.builds(
        lambda t, q: {"t": t, "quote": q, "cps": [a for a, _ in xs], "forms": [b for _, b in xs]}, st.sampled_from(["str", "str", "bytes"]), st.sampled_from(['"', "'"])))
    raws = st.lists(st.one_of(st.integers(0x20, 0x7e), st.sampled_from([0x5c, 0xe9, 0x1f600])), max_size=10).flatmap(
        lambda xs: st.sampled_from(['"', "'"]).map(lambda q: {"t": "raw", "quote": q, "cps": xs}))
    ftxt = st.text(alphabet=st.sampled_from("ab é€→😀\u0301\u00a0#:"), max_size=4)
    fpart = st.one_of(ftxt.map(lambda t: ["text", t]), st.tuples(st.integers(0, 99), st.integers(0, 9)).map(lambda t: ["int", t[0], t[1]]), ftxt.map(lambda t: ["str", t]))
    fstrs = st.builds(lambda q, parts: {"t": "fstr", "quote": q, "parts": parts}, st.sampled_from(['"', "'"]), st.lists(fpart, min_size=1, max_size=5))
    lits = st.one_of(ints, ints, rats, floats, imags, strs, strs, raws, fstrs)
    ctx.hyp(st.lists(lits, min_size=32, max_size=32), lambda b: ctx.check("decode", b), ctx.share(ctx.scale(1000, 40000)), label="c15d")
