#!/bin/bash
# Build nlrun against /repo's current working tree with the verification hooks enabled.
# Serialised with flock: all checks share one target directory.
set -eu
cd "$(dirname "$(readlink -f "$0")")/harness"
export CARGO_NET_OFFLINE=true
exec 9>/verif/harness/.build.lock
flock -w 900 9 || { echo "build lock busy for 15 min" >&2; exit 1; }
cp /repo/Cargo.lock Cargo.lock
cargo build --release --offline 2>&1 | grep -vE "^\s*(Compiling|Fresh|Finished|warning: unused|Blocking)" | grep -E "error|warning: unexpected|Finished" || true
test -x target/release/nlrun
