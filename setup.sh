#!/bin/bash
# One-time offline build of the verification framework (after a fresh restore).
set -eu
cd "$(dirname "$(readlink -f "$0")")"
export CARGO_NET_OFFLINE=true
./build.sh
python3-vt -c "import hypothesis; print('hypothesis', hypothesis.__version__)"
if [ -d fuzz ] && [ -x fuzz/build.sh ]; then fuzz/build.sh; fi
echo setup ok
