#!/bin/bash
# ./seedtest.sh <patch.diff> <Cxx> [more check args]: apply a seeded change to /repo, run the check, undo it.
set -u
patch="$1"; pid="$2"; shift 2
cd /repo || exit 3
if [ -n "$(git status --porcelain -- src Cargo.toml)" ]; then echo "repo dirty"; exit 3; fi
git apply "$patch" || { echo "patch does not apply"; exit 3; }
trap 'git -C /repo checkout -- . ; /verif/build.sh >/dev/null 2>&1' EXIT
cd /verif && timeout 1800 ./check "$pid" "$@" 2>&1 | grep -E "^(VIOLATION|OK|INCONCLUSIVE|KNOWN|violation detail|regression)" | cut -c1-600
